"""C11 Exported string tables match the indices the generated code reads."""
import re

from report import Rule
from mirlib import callee_name, op_const, op_place, backward_slice
import mustlib as M
from astlib import find_all, find_first, show, show_pat, quotes_in, tok_text, method_chain, callee_path
from rules.common import ftrav, flat, flatp, has, same, xquotes

EXPLANATION = (
    "Static structural analysis (MIR data-flow facts, syntax facts, generated-code templates); nothing executed. Decided "
    "clauses: (R1) per locale, the StringIndexer handed to make_builder_keys / merge is a fresh default() of that very "
    "iteration, is the one consumed by get_strings() into that locale's `strings`, and `top_locale_string_count` is the "
    "length of that vector; subkey locales receive the top locale's count position-wise. (R2) a string literal's index is "
    "written only by Literal::index_strings from StringIndexer::push_str (every constructor starts at usize::MAX); push_str "
    "returns the existing index of an equal string or the position it pushes to. (R3) index_strings visits exactly what "
    "the generators render (literals, range branches, component children, plural forms, bloc items); foreign keys are "
    "skipped because reduce() - shown to precede every index_strings call - has inlined them. (R4) every accepting arm of "
    "ParsedValue::merge for a subkey group pushes exactly one locale (keeps the positional pairing with the top locales). "
    "(R5) generated code: the baked table is `[&str; strings_count] = [all strings of that locale]`, every read is "
    "`index_translations::<strings_count, index>` on the table of the arm's locale, so a wrong size or an out-of-range "
    "index cannot compile in the user's crate. (R6) the build helper writes every exported string through a JSON string "
    "escaper covering quote, backslash and all control characters (never Debug formatting). NOT decided: "
    "StringArray::cast's run-time length check, equality of concrete tables."
)
ASSUMPTIONS = ["const generics: `[T; N]` with a literal of another length does not compile; indexing a const array out of range in a const fn fails to compile",
               "JSON allows any character unescaped except quote, backslash and U+0000-U+001F"]

PM = "leptos_i18n_parser/src/parse_locales/mod.rs"
PV = "leptos_i18n_parser/src/parse_locales/parsed_value.rs"
PL = "leptos_i18n_parser/src/parse_locales/locale.rs"
MV = "leptos_i18n_macro/src/load_locales/parsed_value.rs"
ML = "leptos_i18n_macro/src/load_locales/mod.rs"
BL = "leptos_i18n_build/src/lib.rs"
LOCALE = "leptos_i18n_parser::parse_locales::locale::Locale"


def r1_indexer(ctx, prog):
    r = Rule("C11.R1", "one fresh string indexer per locale, consumed into that locale's table and count",
             "the index stored in a literal is a position in the table of the locale being processed; an indexer reused across "
             "locales, or a table/count taken from another indexer, makes indices point at other strings - only when a later "
             "locale repeats a string of an earlier one, or has a different number of strings", floor=3)
    b = prog.body("parse_locales::check_locales_inner")
    if b is None:
        r.missing("check_locales_inner")
        return r
    # decided by evaluation (rules/checklocales.py: check_locales_inner interpreted with the real StringIndexer under it): each
    # locale's table is the distinct texts that locale's own merge pushed, in order, and its count is the table's length -
    # whatever other locales contain and in whatever order they come
    import itertools
    from rules import checklocales, absint as _absint
    evaluated = True
    nrows = 0
    for order in itertools.permutations(("fr", "de", "fr-CA")):
        res, got = checklocales.string_tables(ctx, order)
        if isinstance(res, str):
            evaluated = False
            r.inst("check_locales_inner#tables", "evaluation not available (%s): the MIR clauses below decide alone" % res[:160])
            break
        nrows += 1
        want = checklocales.expected_tables(order)
        badl = [n for n in want if got.get(n) != want[n]]
        if badl:
            n = badl[0]
            r.viol("R1:check_locales_inner#tables", "locales [en, %s] (several of them share texts): the table of `%s` becomes %s with count %s; its own texts are %s - an index handed out by its merge then points at another text or past the end"
                   % (", ".join(order), n, got.get(n, ("?",))[0], _absint.fmt(got[n][1]) if n in got else "?", want[n][0]), file=b.file, line=b.line)
            break
    else:
        r.inst("check_locales_inner#tables", "%d locale orders: every locale's table = the distinct texts of that locale in the order its merge pushed them, count = its length" % nrows)
    if evaluated:
        users = []
    else:
        users = [(c, "make_builder_keys", 2) for c in M.call_blocks(b, r"locale::Locale::make_builder_keys$")] + \
                [(c, "merge", 5) for c in M.call_blocks(b, r"locale::Locale::merge$")]
    if not evaluated and len(users) != 2:
        r.viol("R1:check_locales_inner#users", "expected make_builder_keys (default locale) and merge (other locales), found %d indexer users" % len(users), file=b.file, line=b.line)
    gets = M.call_blocks(b, r"parse_locales::StringIndexer::get_strings$")
    for (c, what, argi) in users:
        t = b.blocks[c]["term"]
        arg = op_place(t["args"][argi])
        ls, defs = backward_slice(b, arg["l"])
        idx_locals = [l for l in ls if b.local_ty(l).endswith("parse_locales::StringIndexer") and not b.local_ty(l).startswith("&")]
        site = "check_locales_inner#%s" % what
        if len(idx_locals) != 1:
            r.viol("R1:%s#indexer" % site, "cannot identify the indexer passed to %s" % what, file=b.file, line=t["line"])
            continue
        x = idx_locals[0]
        xdefs = b.defs().get(x, [])
        fresh = [d for d in xdefs if d[1] == "term" and (callee_name(d[2]) or "").endswith("StringIndexer as std::default::Default>::default")]
        lp = M.loop_of(b, c)
        if len(xdefs) != 1 or len(fresh) != 1:
            r.viol("R1:%s#fresh" % site, "the indexer passed to %s is not a fresh StringIndexer::default() (definitions: %d)" % (what, len(xdefs)), file=b.file, line=t["line"])
            continue
        if lp is not None and fresh[0][0] not in lp[1]:
            r.viol("R1:%s#reused" % site, "the indexer passed to %s is created outside the per-locale loop: it is shared by several locales, so a string already seen in an earlier locale keeps the index it had there" % what, file=b.file, line=t["line"])
            continue
        # consumed by get_strings after the user call, result stored in `.strings` of the locale, count = its len;
        # either here or in a private helper the indexer and the locale are handed to
        recv = op_place(t["args"][0])
        rl, _ = backward_slice(b, recv["l"])
        why = _consumed(prog, b, x, set(rl), c)
        if why is not None and why[0] == "#consumed":
            moved = None
            for hb, ht in b.calls():
                hn = callee_name(ht) or ""
                hbody = prog.bodies.get(hn)
                if hbody is None or hbody.is_pub or not b.dominates(c, hb):
                    continue
                for ai, a in enumerate(ht["args"]):
                    pa = op_place(a)
                    if pa and not pa["p"] and pa["l"] in backward_targets(b, x):
                        # which argument is the locale being processed?
                        for li, la in enumerate(ht["args"]):
                            pl = op_place(la)
                            if pl and li != ai:
                                ls2, _d = backward_slice(b, pl["l"])
                                if set(ls2) & set(rl):
                                    moved = (hbody, ai + 1, li + 1)
            if moved is not None:
                hbody, xi, li = moved
                why = _consumed(prog, hbody, xi, {li}, 0)
                if why is None:
                    what = what + " -> " + hbody.name.split("::")[-1]
        if why is None:
            r.inst(site, "fresh default() %s -> %s -> get_strings() -> locale.strings ; top_locale_string_count = locale.strings.len()" % ("in this iteration" if lp else "", what))
        else:
            r.viol("R1:%s%s" % (site, why[0]), why[1] % {"what": what}, file=b.file, line=t["line"])
    pb = prog.body("locale::BuildersKeysInner::propagate_string_count")
    if pb is None:
        r.missing("BuildersKeysInner::propagate_string_count")
    else:
        ok = False
        why = "no store to top_locale_string_count"
        fam = prog.family(pb)
        reads = 0
        for bb in fam:
            for i2, j2, s2 in bb.assigns():
                for pl in [s2["rv"].get("place")] + [op_place(o) for o in s2["rv"].get("ops", [])]:
                    if pl and any(e.startswith(".") and M.field_name(prog, LOCALE, int(e[1:])) == "top_locale_string_count" for e in pl["p"][-1:]) and "Locale" in bb.local_ty(pl["l"]):
                        reads += 1
        for i2, j2, s2 in pb.assigns():
            fld = [e for e in s2["place"]["p"] if e.startswith(".")]
            if not (s2["place"]["p"] and fld and M.field_name(prog, LOCALE, int(fld[-1][1:])) == "top_locale_string_count"):
                continue
            src = op_place(s2["rv"]["ops"][0]) if s2["rv"].get("ops") else None
            ls, defs = backward_slice(pb, src["l"]) if src else (set(), [])
            dl, ddefs = backward_slice(pb, s2["place"]["l"])
            zips = [d for d in defs + ddefs if d[1] == "term" and (callee_name(d[2]) or "").endswith("Iterator::zip")]
            if not zips:
                why = "the count stored in a sub-key locale is not paired position-wise (zip) with the top-level locales"
                continue
            z = zips[0][2]
            a0, _x = backward_slice(pb, op_place(z["args"][0])["l"])
            a1, _y = backward_slice(pb, op_place(z["args"][1])["l"])
            if 2 in a1 and 2 not in a0 and reads >= 1 and not M.call_blocks(pb, r"Iterator::(skip|take|rev|filter|step_by|skip_while|take_while)$"):
                ok = True
            else:
                why = "the zip does not pair the sub-key locales with the `top_locales` argument in order"
        rec = [c for c in M.call_blocks(pb, r"BuildersKeysInner::propagate_string_count$")]
        rec_ok = any(2 in backward_slice(pb, op_place(pb.blocks[c]["term"]["args"][1])["l"])[0] for c in rec)
        if ok and rec_ok:
            r.inst("propagate_string_count", "sub-key locale i gets the count of top locale i (zip), recursively with the same top locales")
        else:
            r.viol("R1:propagate_string_count", "subkey locales no longer receive their top locale's count position-wise (%s; recursion with top_locales=%s)" % (why, rec_ok), file=PL)
    cb = prog.body("parse_locales::check_locales_inner")
    pc = M.call_blocks(cb, r"BuildersKeysInner::propagate_string_count$")
    oks = M.ok_return_blocks(cb)
    if pc and oks and M.must_pass(cb, pc, oks):
        r.inst("check_locales_inner#propagate", "propagate_string_count dominates Ok")
    else:
        r.viol("R1:check_locales_inner#propagate", "propagate_string_count is not called on every successful path", file=cb.file, line=cb.line)
    return r


def _consumed(prog, b, x, locale_locals, after):
    """None when, in body b, the indexer in local x is consumed by exactly one get_strings() (after block `after`) whose
    result becomes `.strings` of a locale in locale_locals, and that locale's top_locale_string_count is the length of
    that table; else (key suffix, message)"""
    gets = M.call_blocks(b, r"parse_locales::StringIndexer::get_strings$")
    tg = backward_targets(b, x)
    g = [gb for gb in gets if (op_place(b.blocks[gb]["term"]["args"][0]) or {}).get("l") in tg and (after == 0 or b.dominates(after, gb))]
    if len(g) != 1:
        return ("#consumed", "the indexer used by %(what)s is not consumed by exactly one get_strings() afterwards")
    gdest = b.blocks[g[0]]["term"]["dest"]["l"]
    gset = backward_targets(b, gdest)
    stored = None
    for i, j, s in b.assigns():
        if s["rv"]["k"] == "Use" and (op_place(s["rv"]["ops"][0]) or {}).get("l") in gset and s["place"]["p"]:
            fld = [e for e in s["place"]["p"] if e.startswith(".")]
            if fld and M.field_name(prog, LOCALE, int(fld[0][1:])) == "strings":
                stored = (i, s["place"]["l"])
    if stored is None:
        return ("#stored", "the strings of this indexer are not stored in the locale's `strings`")
    sl, _ = backward_slice(b, stored[1])
    if not ({stored[1]} | set(sl)) & set(locale_locals):
        return ("#other-locale", "the table is stored in another locale than the one processed")
    for i, j, s in b.assigns():
        if s["place"]["p"] and s["rv"]["k"] == "Use":
            fld = [e for e in s["place"]["p"] if e.startswith(".")]
            if not (fld and M.field_name(prog, LOCALE, int(fld[0][1:])) == "top_locale_string_count"):
                continue
            tl, _ = backward_slice(b, s["place"]["l"])
            if not ({s["place"]["l"]} | set(tl)) & ({stored[1]} | set(sl) | set(locale_locals)):
                continue
            src = op_place(s["rv"]["ops"][0])
            for (di, dj, ds) in b.defs().get(src["l"], []) if src else []:
                if dj == "term" and (callee_name(ds) or "").endswith("Vec::<T, A>::len"):
                    a = op_place(ds["args"][0])
                    al, adefs = backward_slice(b, a["l"])
                    # len of the table itself, or of the locale's `.strings` once stored
                    if set(al) & gset:
                        return None
                    for (ri, rj, rs) in adefs:
                        if rj != "term" and rs["rv"]["k"] == "Ref":
                            pl = rs["rv"]["place"]
                            f2 = [e for e in pl["p"] if e.startswith(".")]
                            same_locale = pl["l"] == stored[1] or pl["l"] in backward_targets(b, stored[1]) or stored[1] in backward_targets(b, pl["l"]) \
                                or bool(backward_targets(b, pl["l"]) & backward_targets(b, stored[1]))
                            if f2 and M.field_name(prog, LOCALE, int(f2[0][1:])) == "strings" and b.dominates(stored[0], i):
                                if same_locale:
                                    return None
                                return ("#count", "top_locale_string_count is the length of another locale's table, not of the one just stored")
    return ("#count", "top_locale_string_count is not the length of the table just stored")


def backward_targets(b, x):
    """locals that are moves/copies of x"""
    cp = M.copies_of(b, x)
    return set(cp.keys())


def r2_single_writer(ctx, prog):
    r = Rule("C11.R2", "a literal's index is written only by index_strings from push_str",
             "an index copied from another literal, kept across join(), or invented elsewhere points at an unrelated table slot", floor=8)
    n = 0
    for name, b in sorted(prog.bodies.items()):
        if b.crate != "leptos_i18n_parser" or "Clone>::clone" in name or "Debug>::fmt" in name or "PartialEq>::" in name:
            continue
        for i, j, s in b.aggregates("parsed_value::Literal", "String"):
            n += 1
            op = s["rv"]["ops"][1]
            c = op_const(op)
            if c is None or c.get("int") != "18446744073709551615":
                r.viol("R2:%s#index-init" % name, "a string literal is constructed with an index that is not usize::MAX (line %d)" % s["line"], file=b.file, line=s["line"])
            else:
                r.inst("%s#Literal::String" % name, "constructed with index usize::MAX (line %d)" % s["line"])
    if n < 2:
        # (a vacuity guard only: the visitor and the reducer each construct string literals; several arms may share one site)
        r.viol("R2:constructors", "only %d construction sites of Literal::String found (7 on the pinned tree)" % n, file=PV)
    from rules.common import mpaths
    import mustlib as M
    want = {
        "Literal::index_strings": (r"parsed_value::Literal::index_strings$", [
            "[p1 is String] Deref::deref((p1 as String).0); StringIndexer::push_str(p2, Deref::deref((p1 as String).0)); (p1 as String).1 := StringIndexer::push_str(p2, Deref::deref((p1 as String).0)) => '()'",
            "[p1 is not String] => '()'"], "a string literal's index := strings.push_str(its own text); other literals untouched", PV),
    }
    for label, (rx, w, what, file) in want.items():
        got = mpaths(prog, rx)
        if got is None:
            r.missing(label)
        elif got == sorted(w):
            r.inst(label, what)
        else:
            r.viol("R2:" + label, "behaves as %s; confirmed behaviour: %s" % (got, what), file=file)
    # the indexer itself, evaluated (rules/absint.py) on every sequence of at most 4 pushes over 3 strings: a string gets the
    # position of its first occurrence among the distinct strings pushed so far, and the table is those strings in that order
    import itertools
    from rules import absint
    from rules.absint import AEval, C as _C, CF as _CF, I as _I, L as _L
    ps_fn = ctx.ast.fn(PM, "push_str", impl_self="StringIndexer")
    gs_fn = ctx.ast.fn(PM, "get_strings", impl_self="StringIndexer")
    if ps_fn is None or gs_fn is None:
        r.missing("StringIndexer::push_str / get_strings")
    else:
        bad = None
        nseq = 0
        for ln in range(0, 5):
            for seq in itertools.product("abc", repeat=ln):
                state = _CF("StringIndexer", current=_L(), acc=_L())
                distinct = []
                for ch in seq:
                    ev = AEval(funcs={})
                    got = ev.run_fn(ps_fn, [state, ("str", ch)])
                    if ch not in distinct:
                        distinct.append(ch)
                    if isinstance(got, str):
                        bad = bad or "push_str cannot be evaluated: %s" % got
                        break
                    state = (getattr(ev, "last_env", None) or {}).get("self", state)
                    if got != _I(distinct.index(ch)):
                        bad = bad or "pushing %s gives index %s for `%s`, expected %d (position of its first occurrence)" % (list(seq), absint.fmt(got), ch, distinct.index(ch))
                        break
                else:
                    tab = AEval(funcs={}).run_fn(gs_fn, [state])
                    if tab != _L(*[("str", x) for x in distinct]):
                        bad = bad or "after pushing %s the table is %s, expected %s" % (list(seq), tab if isinstance(tab, str) else absint.fmt(tab), distinct)
                nseq += 1
        if bad:
            r.viol("R2:StringIndexer::push_str", bad, file=PM, line=ps_fn.line)
        else:
            r.inst("StringIndexer::push_str", "%d push sequences: known string -> its index; new string -> next slot; get_strings = the distinct strings in first-occurrence order" % nseq)
            r.inst("StringIndexer::get_strings", "the accumulated table, in index order")
    # who writes the index field of Literal::String (MIR stores; an extracted single-caller helper counts as its caller)
    writers = set()
    for name, b in prog.bodies.items():
        if b.crate != "leptos_i18n_parser" or "Clone>::clone" in name:
            continue
        refs = set()
        for i2, j2, s2 in b.assigns():
            rv = s2["rv"]
            pl = rv.get("place")
            if rv["k"] == "Ref" and rv.get("mut") and pl and "@String" in pl["p"] and pl["p"][-1] == ".1" and "parsed_value::Literal" in b.local_ty(pl["l"]):
                refs.add(s2["place"]["l"])
            pl2 = s2["place"]
            if pl2["p"] and (("@String" in pl2["p"] and pl2["p"][-1] == ".1" and "parsed_value::Literal" in b.local_ty(pl2["l"])) or (pl2["l"] in refs and pl2["p"] == ["*"])):
                writers.add(M.owner_of(prog, name).split("parse_locales::")[-1])
    if writers == {"parsed_value::Literal::index_strings"}:
        r.inst("writers of the index", "Literal::index_strings only")
    else:
        r.viol("R2:writers", "the index of a string literal is written in %s" % sorted(writers), file=PV)
    # the indexer cannot be drained and reused: no method other than push_str takes &mut self
    # (a private helper of push_str is part of push_str: the indexer as a whole is decided by evaluation in R1 / R2)
    muts = [f.name for f in ctx.ast.fns if f.file.endswith(PM) and f.impl_self == "StringIndexer" and f.node["sig"]["inputs"] and "&mut" in flat(f.node["sig"]["inputs"][0]["ty"])
            and f.node.get("vis", "") != ""]
    if muts != ["push_str"]:
        r.viol("R2:StringIndexer#mut-api", "StringIndexer has &mut self methods %s besides push_str: the table can be altered or drained while the dedup map keeps stale indices" % muts, file=PM)
    else:
        r.inst("StringIndexer &mut API", "push_str only")
    return r


def _r3_structural(ctx, r):
    ast = ctx.ast
    ftrav(r, "ParsedValue::index_strings", ast.fn(PV, "index_strings", impl_self="ParsedValue"), {
        "Literal": (["index_strings"], "the literal"),
        "Ranges": (["index_strings"], "every branch"),
        "Component": (["index_strings"], "children"),
        "Plurals": (["index_strings"], "forms and other"),
        "Bloc": (["index_strings"], "items"),
        "ForeignKey": (None, "inlined by reduce() before (checked below)"),
        "Variable": (None, "no text"), "Default": (None, "never rendered"), "Subkeys": (None, "indexed through Locale::merge / make_builder_keys of the group"),
    })
    inner = [f for f in ast.fns_named("leptos_i18n_parser/src/parse_locales/ranges.rs", "inner") if f.qual.endswith("Ranges::index_strings::inner")]
    t = flatp(show(inner[0].body)) if inner else ""
    if same(t, "{for_,valueinrange{value.index_stringsstrings}}"):
        r.inst("Ranges::index_strings", "every branch")
    else:
        r.viol("R3:Ranges::index_strings", "is `%s`" % t, file="leptos_i18n_parser/src/parse_locales/ranges.rs")
    fn = ast.fn("leptos_i18n_parser/src/parse_locales/plurals.rs", "index_strings", impl_self="Plurals")
    t = flatp(show(fn.body)) if fn else ""
    if same(t, "{forforminself.forms.values_mut{form.index_stringsstrings}self.other.index_stringsstrings}"):
        r.inst("Plurals::index_strings", "every form, then other")
    else:
        r.viol("R3:Plurals::index_strings", "is `%s`" % t, file="leptos_i18n_parser/src/parse_locales/plurals.rs")


def r3_traversal(ctx, prog):
    r = Rule("C11.R3", "index_strings visits what the generators render; reduce() precedes it",
             "a literal the generator renders but index_strings skipped keeps index usize::MAX; the only kind skipped on purpose "
             "(foreign keys) must have been inlined by reduce() first", floor=10)
    ast = ctx.ast
    fnx = ast.fn(PV, "index_strings", impl_self="ParsedValue")
    decided = False
    if fnx is None:
        r.missing("ParsedValue::index_strings")
    else:
        # evaluated (rules/absint.py): the text of every string literal below a value - in blocs, components, range branches,
        # plural forms and `other` - is handed to the indexer, in rendering order; nothing else is
        from rules import absint, fkeval
        from rules.absint import AEval, C, I, A
        from rules.fkeval import Var, Comp, Bloc, Rng, Plu, Exact, FALLBACK, S
        absint.set_program(ast)

        def Lit(t_):
            return C("Literal", C("String", S(t_), C("MAX")))
        vals = [("a literal", Lit("a"), ["a"]), ("a bloc with a repeated text", Bloc(Lit("a"), Var("var_x"), Lit("b"), Lit("a")), ["a", "b", "a"]),
                ("nested components", Comp("comp_b", Bloc(Lit("c"), Comp("comp_i", Lit("d")), Lit("e"))), ["c", "d", "e"]),
                ("a range", Rng("var_count", "I32", [(Exact(0), Lit("zero")), (Exact(1), Comp("comp_b", Lit("one"))), (FALLBACK, Bloc(Var("var_count"), Lit(" many")))]), ["zero", "one", " many"]),
                ("a float range", Rng("var_count", "F64", [(Exact(0), Lit("z")), (FALLBACK, Lit("f"))]), ["z", "f"]),
                ("a plural", Plu("var_count", "Cardinal", [("One", Lit("one")), ("Few", Bloc(Lit("few "), Var("var_count")))], Lit("other")), ["one", "few ", "other"]),
                ("a plural in a component in a bloc", Bloc(Lit("x"), Comp("comp_b", Plu("var_n", "Ordinal", [("Two", Lit("nd"))], Lit("th"))), Lit("y")), ["x", "nd", "th", "y"]),
                ("a number", C("Literal", C("Unsigned", I(3))), []), ("a variable", Var("var_x"), []), ("null", C("Default"), []), ("a group", C("Subkeys", C("None")), [])]
        badx = None
        try:
            for label, v, want in vals:
                log = []

                def push(rv, a, log=log):
                    log.append(a[0][1] if a[0][0] == "str" else absint.fmt(a[0]))
                    return I(len(log) - 1)
                ev = AEval(funcs={}, builtins={"push_str": push})
                ev.consts = {"usize::MAX": C("MAX")}
                got = ev.run_fn(fnx, [v, A("strings")])
                if isinstance(got, str):
                    raise absint.Unknown("%s (index_strings on %s)" % (got, label))
                if log != want and badx is None:
                    badx = "%s: the indexer is handed %s, the value renders the texts %s" % (label, log, want)
            decided = True
            if badx:
                r.viol("R3:ParsedValue::index_strings#every-text", badx, file=fnx.file, line=fnx.line)
            else:
                r.inst("ParsedValue::index_strings (evaluated)", "%d values of every kind: every literal text below the value is pushed, once per occurrence, in rendering order" % len(vals))
        except absint.Unknown as u:
            r.viol("R3:index_strings#undecided", "index_strings cannot be interpreted on the current code (%s): not decided on this tree (fail closed); structural clauses follow" % str(u)[:300], file=fnx.file, line=fnx.line)
    if decided:
        r.floor = 3
    else:
        _r3_structural(ctx, r)
    # reduce precedes index_strings
    b = prog.body("parsed_value::ParsedValue::merge")
    if b is not None:
        red = M.call_blocks(b, r"ParsedValue::reduce$")
        idx = M.call_blocks(b, r"ParsedValue::index_strings$|Literal::index_strings$")
        if red and idx and all(any(b.dominates(x, i) for x in red) for i in idx):
            r.inst("ParsedValue::merge", "reduce() dominates every index_strings call (%d)" % len(idx))
        else:
            r.viol("R3:ParsedValue::merge#reduce-first", "an index_strings call in merge is not preceded by reduce(): unresolved foreign keys would keep unindexed literals", file=b.file, line=b.line)
    # every successful merge of a renderable value against a plain key indexes its strings (all paths of the MIR body)
    if b is not None:
        import mirsum
        ps = mirsum.paths(prog, b, depth=0, max_paths=400)
        if ps is None:
            r.viol("R3:ParsedValue::merge#paths", "merge has loops or too many paths to enumerate", file=b.file, line=b.line)
        else:
            def variant_of(conds, term):
                iss = {c[2] for c in conds if c[0] == "is" and c[1] == term}
                nots = set()
                for c in conds:
                    if c[0] == "not" and c[1] == term:
                        nots |= set(c[2].split("|"))
                if len(iss) > 1 or iss & nots:
                    return "<infeasible>"
                return next(iter(iss)) if iss else "not " + "|".join(sorted(nots))

            def rooted_at_p1(t):
                while isinstance(t, tuple) and t and t[0] in ("field", "downcast", "proj"):
                    t = t[2]
                return t == ("p", 1)
            n_ok, bad = 0, []
            for conds, trace, ret in ps:
                terms = {c[1] for c in conds if c[0] in ("is", "not")}
                if any(variant_of(conds, t) == "<infeasible>" for t in terms):
                    continue
                v1 = variant_of(conds, ("p", 1))
                v2 = variant_of(conds, ("p", 2))
                if v1 in ("Default", "Subkeys") or v2 != "Value":
                    continue
                if isinstance(ret, tuple) and ((ret[0] == "adt" and ret[2] == "Err") or ret[0] == "diverges"):
                    continue
                if any(c[0] == "call" and c[1].endswith("::index_strings") and c[2] and rooted_at_p1(c[2][0]) for c in trace):
                    n_ok += 1
                else:
                    bad.append("self is %s: [%s] => %s" % (v1, " & ".join(mirsum.fmt(c) for c in conds), mirsum.fmt(ret)))
            if bad:
                r.viol("R3:ParsedValue::merge#unindexed-path", "a value is merged successfully without its strings being indexed (they keep index usize::MAX and never enter the locale's table): %s" % "; ".join(sorted(set(bad))[:2]), file=b.file, line=b.line)
            elif n_ok:
                r.inst("ParsedValue::merge#all-paths", "%d feasible successful paths for a renderable value against a plain key: each calls index_strings on the value" % n_ok)
            else:
                r.viol("R3:ParsedValue::merge#paths", "no successful path found for a renderable value", file=b.file, line=b.line)
    b0 = prog.body("locale::Locale::make_builder_keys")
    if b0 is not None:
        # the function and the closures it owns: within each body that calls make_locale_value, reduce() comes first
        root = M._root(b0.name)
        owned = [bb for n2, bb in sorted(prog.bodies.items()) if bb.crate == b0.crate and M.owner_of(prog, n2) == root]
        sites = [(bb, M.call_blocks(bb, r"ParsedValue::reduce$"), M.call_blocks(bb, r"ParsedValue::make_locale_value$")) for bb in owned]
        sites = [x for x in sites if x[2]]
        b = sites[0][0] if sites else b0
        if sites and all(red and all(any(bb.dominates(x, i) for x in red) for i in mlv) for bb, red, mlv in sites):
            r.inst("Locale::make_builder_keys", "value.reduce() dominates make_locale_value (which indexes)")
        else:
            r.viol("R3:make_builder_keys#reduce-first", "make_locale_value is not preceded by reduce()", file=b.file, line=b.line)
    return r


def r4_subkey_push(ctx):
    r = Rule("C11.R4", "every accepted subkey-group merge pushes exactly one locale",
             "propagate_string_count pairs subkey locales with top locales by position", floor=2)
    fn = ctx.ast.fn(PV, "merge", impl_self="ParsedValue")
    if fn is None:
        r.missing("ParsedValue::merge")
        return r
    for m in find_all(fn.body, "Match"):
        if m["scrutinee"]["k"] != "Tuple":
            continue
        for a in m["arms"]:
            pt = show_pat(a["pat"])
            if "LocaleValue::Subkeys" in pt:
                pushes = [c for c in find_all(a["body"], "MethodCall") if c["method"] == "push" and show(c["receiver"]) == "locales"]
                if len(pushes) == 1:
                    r.inst("merge arm %s" % pt[:50], "locales.push(%s) once" % show(pushes[0]["args"][0]))
                else:
                    r.viol("R4:merge#%s" % re.sub(r"\W+", "", pt)[:40], "arm pushes %d locales" % len(pushes), file=fn.file, line=a["line"])
    return r


def r5_templates(ctx):
    r = Rule("C11.R5", "generated tables are typed by their size and read with typed indices",
             "the compile-time array type ties the table of a locale to the size and indices computed for that locale", floor=5)
    ast = ctx.ast
    fn = ast.fn(MV, "to_token_stream", impl_self="Literal")
    if fn is None:
        r.missing("macro Literal::to_token_stream")
    else:
        # evaluated (rules/absint.py): the tokens emitted for a string literal with index 3 in a table of 9
        from rules import absint as _ai
        from rules.absint import AEval as _AE, C as _C, CF as _CF, I as _I, TOK as _TOK
        _ai.set_program(ast)
        okk = True
        for dyn in (True, False):
            ev = _AE(funcs={})
            ev.cfg = lambda t_, dyn=dyn: dyn
            ev.path_builtins["Key::new"] = lambda a: _C("Some", _CF("Key", name=a[0], ident=_TOK(a[0][1] if a[0][0] == "str" else "KEY")))
            ev.builtins["unwrap_at"] = lambda rv, a: rv[2][0] if rv[0] == "ctor" and rv[2] else rv
            ev.totokens = lambda v: _ai.fields_of(v)["ident"][1] if v[0] == "ctor" and v[1] == "Key" else None
            try:
                got = ev.run_fn(fn, [_C("String", ("str", "txt"), _I(3)), _I(9)])
            except _ai.Unknown as u:
                got = "UNKNOWN: %s" % u
            txt = flat(got[1]) if not isinstance(got, str) and got[0] == "tok" else None
            m_ = re.match(r"^(\{constS:&str=)?l_i18n_crate::__private::index_translations::<9,3>\((\w+)\)(;S\})?$", txt or "")
            if txt is None:
                r.viol("R5:Literal::to_token_stream#undecided", "cannot be interpreted on the current code (%s): not decided (fail closed)" % (got if isinstance(got, str) else _ai.fmt(got))[:200], file=fn.file, line=fn.line)
                okk = False
            elif not m_ or bool(m_.group(1)) != bool(m_.group(3)) or bool(m_.group(1)) == dyn:
                r.viol("R5:Literal::to_token_stream", "a string literal with index 3 in a table of 9 is read as `%s` (%s build); expected index_translations::<9, 3>(table)%s" % (txt, "dynamic_load" if dyn else "static", "" if dyn else " inside a const item"), file=fn.file, line=fn.line)
                okk = False
        if okk:
            r.inst("Literal::to_token_stream", "index_translations::<strings_count, own index>(table) (in a const item when baked)")
    fn = ast.fn(ML, "create_locale_type_inner")
    if fn is not None:
        t = flatp(show(fn.body))
        qs = [flat(tok_text(q["tokens"])) for q in xquotes(fn.body)]
        ok = has(t, "letstrings_count=locale.top_locale_string_count;letstrings=&*locale.strings;") and "constSTRINGS:&[&str;#strings_count]=&[#(#strings,)*];" in qs
        if ok:
            r.inst("string_holders", "const STRINGS: &[&str; locale.top_locale_string_count] = &[all of locale.strings]")
        else:
            r.viol("R5:create_locale_type_inner#STRINGS", "the baked table is not `[&str; count of this locale] = [strings of this locale]`", file=fn.file, line=fn.line)
        n = sum(1 for q in qs if re.search(r"->&'static\[(&'staticstr|Box<str>);#strings_count\]", q))
        if n >= 6:
            r.inst("accessors", "%d accessor templates return `&'static [_; #strings_count]`" % n)
        else:
            r.viol("R5:create_locale_type_inner#accessor-types", "only %d accessor templates carry the table size in their type" % n, file=fn.file, line=fn.line)
    for f, name, ty in (("leptos_i18n_macro/src/load_locales/interpolate.rs", "create_locale_impl", "Interpolation"), ("leptos_i18n_macro/src/load_locales/interpolate.rs", "create_locale_string_impl", "Interpolation")):
        fn = ast.fn(f, name, impl_self=ty)
        if fn is None:
            continue
        t = flatp(show(fn.body))
        qs = [flat(tok_text(q["tokens"])) for q in xquotes(fn.body)]
        ok = has(t, "letstrings_count=locale.top_locale_string_count;") and has(t, "letstring_accessor=strings_accessor_method_namelocale;") and \
            any("#translations_key:&[&str;#strings_count]=super::#locale_type_ident::#string_accessor()" in q for q in qs)
        if ok:
            r.inst(name, "table binding typed `[&str; count of the arm's locale]` from the arm's locale accessor")
        else:
            r.viol("R5:%s#binding" % name, "the table binding is not typed with this locale's count / accessor", file=fn.file, line=fn.line)
    fns = [x for x in ast.fns if x.file.endswith("leptos_i18n/src/macro_helpers/mod.rs") and x.name == "index_translations"]
    good = [x for x in fns if flatp(show(x.body)) in ("{translations[I]}", "{&translations[I]}")]
    if len(fns) == 2 and len(good) == 2:
        r.inst("index_translations", "translations[I] for both configurations")
    else:
        r.viol("R5:index_translations", "run-time helper does not read slot I", file="leptos_i18n/src/macro_helpers/mod.rs")
    return r


def r6_json(ctx, prog):
    r = Rule("C11.R6", "exported strings pass through a JSON string escaper",
             "`valid JSON that decodes to those same strings for any text`: Rust Debug escapes (\\u{a0}, \\0) are not JSON", floor=5)
    b = prog.body("<leptos_i18n_build::TranslationsFormatter<'_> as std::fmt::Display>::fmt")
    if b is None:
        r.missing("TranslationsFormatter::fmt")
        return r
    dbg = []
    for i, t in b.calls():
        c = op_const(t["func"])
        full = (c or {}).get("fn_full", "")
        if "new_debug" in full or "Debug>::fmt" in full:
            dbg.append(full)
    esc = M.call_blocks(b, r"leptos_i18n_build::write_json_str$")
    if dbg:
        r.viol("R6:TranslationsFormatter::fmt#debug", "strings are written with Debug formatting (%s): not valid JSON for non-ASCII / control characters" % dbg[0][:80], file=b.file, line=b.line)
    in_loop = [e for e in esc if M.loop_of(b, e)]
    if len(esc) >= 2 or (len(esc) == 1 and in_loop):
        r.inst("TranslationsFormatter::fmt", "%d call site(s) of write_json_str covering every element, no Debug formatting" % len(esc))
    else:
        r.viol("R6:TranslationsFormatter::fmt#escaper", "strings are not all written through the JSON escaper", file=b.file, line=b.line)
    # display calls on Rc<str> directly would bypass the escaper too
    for i, t in b.calls():
        full = (op_const(t["func"]) or {}).get("fn_full", "")
        if "new_display::<std::rc::Rc<str>>" in full or "new_display::<&std::rc::Rc<str>>" in full or "new_display::<&str>" in full:
            r.viol("R6:TranslationsFormatter::fmt#display", "a string is written verbatim (Display) into the JSON document", file=b.file, line=t["line"])
    # the file holds exactly this document: it is created / truncated before the document is written (a document written over
    # a longer file of an earlier build leaves that file's tail behind the closing bracket)
    wb = None
    for nm, bb in prog.bodies.items():
        if bb.crate == "leptos_i18n_build" and re.search(r"LocaleTranslations(::)?<[^>]*>::write_to_dir$", nm):
            wb = bb
    if wb is None:
        r.missing("LocaleTranslations::write_to_dir")
    else:
        fam = prog.family(wb) if hasattr(prog, "family") else [wb]
        names = [callee_name(t) or "" for bb in fam for _i, t in bb.calls()]
        creates = [n for n in names if n.endswith("std::fs::File::create") or n.endswith("std::fs::write") or n.endswith("std::fs::File::create_new")]
        opens = [n for n in names if n.endswith("std::fs::OpenOptions::open") or n.endswith("std::fs::File::options") or n.endswith("std::fs::OpenOptions::new") or n.endswith("std::fs::File::open")]
        trunc_true = False
        append = any(n.endswith("std::fs::OpenOptions::append") for n in names)
        set_len = any(n.endswith("std::fs::File::set_len") for n in names)
        for bb in fam:
            for _i, t in bb.calls():
                if (callee_name(t) or "").endswith("std::fs::OpenOptions::truncate"):
                    c = op_const(t["args"][1]) if len(t["args"]) > 1 else None
                    if c is not None and str(c.get("int", c.get("bool"))) in ("1", "True", "true"):
                        trunc_true = True
        if creates and not opens:
            r.inst("write_to_dir#file", "the locale file is created with %s (an existing file is truncated first)" % creates[0].split("std::fs::")[-1])
        elif opens and (trunc_true or set_len) and not append:
            r.inst("write_to_dir#file", "the locale file is opened with truncate(true) / set_len before the document is written")
        else:
            r.viol("R6:write_to_dir#truncates", "the locale file is opened without being truncated (%s): a shorter table written over the file of an earlier build leaves that file's tail after the closing bracket - the export is no longer valid JSON" % sorted(set(x.split("std::fs::")[-1] for x in creates + opens)), file=wb.file, line=wb.line)
    fn = ctx.ast.fn(BL, "write_json_str")
    if fn is None:
        r.missing("write_json_str")
        return r
    # the escaper is checked against the JSON string grammar for every class of characters its code can distinguish
    # (finite case analysis over the literals and thresholds it mentions; see rules/dtable.py)
    from rules import dtable, absint as _ai
    _ai.set_program(ctx.ast)
    params = fn.params()
    ok, problems, facts_ = dtable.escaper_spec(fn.body, params[1] if len(params) > 1 else "s", "json", fn=fn)
    if ok:
        r.inst("write_json_str", "for each of %d character classes the text written decodes (as JSON) to exactly that character; framed by double quotes" % facts_["classes"])
        r.inst("write_json_str control characters", "U+0000..U+001F are escaped")
        r.inst("write_json_str framing", "\" ... \" around every char of the string, in order")
    else:
        for pb in problems[:6]:
            r.viol("R6:write_json_str#" + pb.split(" ")[0], pb, file=fn.file, line=fn.line)
    return r


def run(ctx):
    prog = ctx.mir("main")
    from rules.common import skip_icu_gates
    r7 = skip_icu_gates(ctx, "C11.R7", "the build helper parses like the macro: the SKIP_ICU_CFG flag only stands in for ICU features being enabled",
                        "`the string table exported for lazy loading and the one baked into the generated code hold, at each index, exactly the [same] text`: both come from "
                        "the same parser, the helper with SKIP_ICU_CFG set; a pass (plural merging, indexing) or a value treated differently under that flag "
                        "orders or fills the exported table differently from the baked one")
    from rules import exporteval, absint as _absint
    r8 = Rule("C11.R8", "the export writes one valid JSON file per locale (and namespace), an empty table included, decoding to that locale's table",
              "`the file written by the build helper is valid JSON that decodes to those same strings`, `their length equals the size the generated code expects`: "
              "the client fetches `<locale>.json` for every locale and casts it to the expected length; a file left out or a string written differently breaks that locale", floor=1)
    try:
        exporteval.check(ctx, r8, "R8")
        exporteval.check_endpoint(ctx, r8, "R8")
    except _absint.Unknown as u:
        r8.viol("R8:undecided", "the export cannot be interpreted on the current code (%s): not decided on this tree (fail closed)" % str(u)[:300])
    # the client turns the fetched list into the fixed-size table the accessors index: a length that differs from the expected
    # size must be rejected, never padded or truncated (MIR return summary and effects of StringArray::cast, py/mirsum.py)
    import mirsum
    r9 = Rule("C11.R9", "a fetched table is accepted only with exactly the expected length",
              "`their length equals the size the generated code expects`: the accessors index the table without bounds they could recover from; a table "
              "resized to fit renders empty or shifted text instead of failing", floor=1)
    for cfgname in (["main"] if ctx.tier == "quick" else ["main", "hydrate"]):
        pr = ctx.mir(cfgname)
        for nme, bb in pr.bodies.items():
            if re.search(r"^<\[std::boxed::Box<str>; SIZE\] as leptos_i18n::fetch_translations::StringArray>::cast$", nme):
                eff = []
                t = mirsum.summary(pr, bb, depth=1, args=[("cap", "strings")], effects=eff)
                got = mirsum.fmt(t) if t is not None else "a branching computation"
                if re.match(r"^Result::unwrap\((TryInto::try_into|(\w+)?::try_from)\(Vec::into_boxed_slice\(strings\)\)\)$", got) and not eff:
                    r9.inst("StringArray::cast [cfg %s]" % cfgname, "the whole list converted with TryInto (fails unless the length is SIZE), the list untouched before")
                else:
                    r9.viol("R9:StringArray::cast", "the fetched list becomes `%s` after %s; expected the untouched list converted with TryInto::try_into(..).unwrap()" % (got, [mirsum.fmt(e) for e in eff] or "no other call"), file=bb.file, line=bb.line)
    # the client decodes the fetched file into *owned* strings: a borrowed `&str` cannot hold a string that contains a JSON escape
    # (serde_json then fails with "expected a borrowed string") - the type the response is deserialised into, read from MIR
    for nme, bb in prog.bodies.items():
        if re.search(r"^<leptos_i18n::fetch_translations::LocaleServerFnOutputClient as .*Deserialize<'de>>::deserialize$", nme):
            tys = []
            for ci, ct in bb.calls():
                if re.search(r"Deserialize<'de>.*>::deserialize$|Deserialize::deserialize$", callee_name(ct) or ""):
                    d_ = ct.get("dest")
                    tys.append(bb.local_ty(d_["l"]) if d_ else "?")
            if len(tys) == 1 and re.search(r"Vec<(std::boxed::Box<str>|std::string::String|alloc::boxed::Box<str>|alloc::string::String)>", tys[0]) and "&" not in tys[0].split(",")[0]:
                r9.inst("LocaleServerFnOutputClient::deserialize", "the response is decoded as %s: owned strings, any JSON escape included" % tys[0].split(",")[0][:80])
            else:
                r9.viol("R9:LocaleServerFnOutputClient::deserialize", "the fetched table is decoded as %s: only owned strings (Vec<Box<str>> / Vec<String>) can hold text with JSON escapes (quotes, backslashes, line ends)" % tys, file=bb.file, line=bb.line)
    return [r1_indexer(ctx, prog), r2_single_writer(ctx, prog), r3_traversal(ctx, prog), r4_subkey_push(ctx), r5_templates(ctx), r6_json(ctx, prog), r7, r8, r9]


MANIFEST_ENTRY = {
    "technique": "static analysis: abstract evaluation (rules/checklocales.py on rules/absint.py) of check_locales_inner with the real StringIndexer under it over every locale order (each locale's table = its own distinct texts, count = its length) and of the indexer on every push sequence of length <= 4; MIR path enumeration of ParsedValue::merge (every successful merge of a renderable value indexes it), MIR single-writer check of literal indices, traversal completeness of index_strings, escaper decision table against the JSON grammar with helper predicates interpreted and astral / invisible representatives, MIR check that the exported file is created / truncated before the document is written; syntactic normal-form rule for every read of SKIP_ICU_CFG (the flag only stands in for an ICU feature); abstract evaluation of the whole export (get_translations -> write_to_dir) over a modelled file system with the written text decoded by a JSON parser; MIR return summary + effects of StringArray::cast; MIR destination type of the client-side decode (owned strings); the client endpoint: create_locale_type_inner evaluated in the lazily-loading client configuration - translations-path with {locale} = the configured name and {namespace} = the namespace name, i.e. the file write_to_dir writes (a namespace without text included)",
    "level_text": "Structural: for every locale the index space is shown to be created, filled, stored and measured from one fresh indexer; indices have one writer; the generated code is shown to carry table size and index in types; the exported file is shown to be written through an escaper whose table covers what JSON requires. No table is computed.",
    "level_note": "Trusted: const-generic array typing, JSON grammar. Not decided: StringArray::cast at run time, concrete tables.",
}
