"""C16 A context always shows the last locale set; sub-contexts are isolated."""
import re

from report import Rule
from mirlib import callee_name, op_const, op_place
import mustlib as M
from astlib import find_all, find_first, show, show_pat, quotes_in, tok_text
from rules.common import flat, flatp, has, same, xquotes

EXPLANATION = (
    "Static structural analysis (syntax facts of context.rs and of the t! template, MIR facts of the context constructors); "
    "nothing executed. Decided structural clauses: (R1) single state: I18nContext holds exactly one stateful field (the "
    "locale RwSignal); every getter reads it, every setter writes it, scope() copies it - so there is no second place a "
    "locale could be remembered or go stale. (R2) re-read: the view flavour of t! puts the `get_keys()` call inside the "
    "emitted closure (evaluated on every run), only the user's argument expressions are hoisted. (R3) isolation: every "
    "context gets its own RwSignal created in init_context_inner; a sub-context reads its parent only once, untracked, "
    "outside any Memo/Effect closure; children are run in a child owner where the sub-context is provided. NOT decided / "
    "not applicable: operation histories on a live reactive graph (leptos' signal semantics)."
)
ASSUMPTIONS = ["RwSignal get/set/write_untracked have leptos' documented semantics", "a closure returned to leptos is re-run when a signal it read changes"]

C = "leptos_i18n/src/context.rs"
TM = "leptos_i18n_macro/src/t_macro/mod.rs"


def r1_single_state(ctx):
    r = Rule("C16.R1", "one stateful field; getters read it, setters write it, scope copies it",
             "`observe the most recently set locale`: a second copy of the locale (cache, cloned signal, write to a temporary) "
             "makes some observers stale", floor=7)
    ast = ctx.ast
    st = ast.struct(C, "I18nContext")
    if st is None:
        r.missing("struct I18nContext")
    else:
        fields = [(f["name"], flat(f["ty"])) for f in st["fields"]]
        if fields == [("locale_signal", "RwSignal<L>"), ("scope_marker", "PhantomData<S>")]:
            r.inst("struct I18nContext", "locale_signal: RwSignal<L> + a PhantomData marker")
        else:
            r.viol("R1:I18nContext#fields", "fields are %s: more than one place can hold a locale" % fields, file=C)
    from rules.common import msum
    prog = ctx.mir("main")
    want = {
        "get_locale": ("Get::get(p1.locale_signal)", []),
        "get_locale_untracked": ("GetUntracked::get_untracked(p1.locale_signal)", []),
        "set_locale": ("Set::set(p1.locale_signal, p2)", []),
        "set_locale_untracked": ("'()'", ["DerefMut::deref_mut(Write::write_untracked(p1.locale_signal)) := p2"]),
        "get_keys": ("LocaleKeys::from_locale(Get::get(p1.locale_signal))", []),
        "get_keys_untracked": ("LocaleKeys::from_locale(GetUntracked::get_untracked(p1.locale_signal))", []),
        "scope": ("I18nContext#I18nContext(p1.locale_signal, PhantomData#PhantomData())", []),
    }
    for name, (w, eff) in want.items():
        got = msum(prog, r"context::I18nContext::<L, S>::%s$" % name)
        if not got:
            r.missing("I18nContext::" + name)
        elif got[0][1] == w and got[0][2] == eff:
            r.inst("I18nContext::" + name, w + (" ; " + "; ".join(eff) if eff else ""))
        else:
            r.viol("R1:I18nContext::" + name, "does `%s` with effects %s, expected `%s` %s (the context's single locale signal)" % (got[0][1], got[0][2], w, eff), file=C)
    return r


def r2_reread(ctx):
    r = Rule("C16.R2", "t! re-reads the context inside the reactive closure",
             "`every reactive accessor created before or after`: a view built from keys read once, outside the closure, keeps the "
             "locale it was created with", floor=3)
    fn = ctx.ast.fn(TM, "wrapp", impl_self="OutputType")
    if fn is None:
        r.missing("OutputType::wrapp")
        return r
    qs = [flat(tok_text(q["tokens"])) for q in xquotes(fn.body)]
    view = [q for q in qs if "move||" in q]
    ok = bool(view) and all(re.match(r"^\{#params(leptos_i18n::__private::future_renderer\()?move\|\|\{#clone_values#ts\}\)?\}$", q) for q in view)
    if ok:
        r.inst("wrapp(View)", "{ #params  move || { #clone_values #ts } } : the accessor chain (#ts) is inside the closure in %d template(s)" % len(view))
    else:
        r.viol("R2:wrapp#view", "the accessor chain is not (only) inside the emitted closure: %s" % view, file=fn.file, line=fn.line)
    fn = ctx.ast.fn(TM, "t_macro_inner")
    t = flatp(show(fn.body)) if fn else ""
    qs = [flat(tok_text(q["tokens"])) for q in xquotes(fn.body)] if fn else []
    if any(q.startswith("{let_builder=#get_key.#builder_fn();") for q in qs) and "let(#(#keys,)*)=(#(#values,)*);" in qs:
        r.inst("t_macro_inner", "`#get_key` is part of the inner block (#ts); only `let (keys..) = (values..)` is hoisted as #params")
    else:
        r.viol("R2:t_macro_inner", "get_key is no longer part of the re-evaluated block", file=TM)
    fn = ctx.ast.fn(TM, "get_key", impl_self="InputType")
    qs = [flat(tok_text(q["tokens"])) for q in xquotes(fn.body)] if fn else []
    if "leptos_i18n::I18nContext::get_keys(#input).#keys()" in qs:
        r.inst("InputType::Context", "tracked read: I18nContext::get_keys")
    else:
        r.viol("R2:get_key#Context", "t! does not read the context with the tracked get_keys", file=TM)
    return r


def r3_isolation(ctx, prog):
    r = Rule("C16.R3", "each context owns a fresh signal; the parent is read once, untracked",
             "`a sub-context and its parent never change each other's locale once created`", floor=5)
    b = prog.body("leptos_i18n::context::init_context_inner")
    if b is None:
        r.missing("init_context_inner")
    else:
        news = M.call_blocks(b, r"RwSignal<T>::new$|RwSignal::<T>::new$|reactive_graph::signal::RwSignal::<T>::new$|RwSignal<.*>::new$")
        aggs = [(i, s) for i, j, s in b.aggregates("context::I18nContext")]
        ok = False
        from mirlib import backward_slice
        for (i, s) in aggs:
            op = s["rv"]["ops"][s["rv"]["fields"].index("locale_signal")]
            ls, defs = backward_slice(b, op_place(op)["l"])
            if any(dj == "term" and re.search(r"RwSignal.*::new$", callee_name(ds) or "") for (di, dj, ds) in defs):
                ok = True
        if ok and len(news) == 1:
            r.inst("init_context_inner", "I18nContext { locale_signal: RwSignal::new(initial_locale.get_untracked()) } - a new signal per call")
        else:
            r.viol("R3:init_context_inner#fresh-signal", "the context is not built around a signal created in this call (RwSignal::new calls: %d)" % len(news), file=b.file, line=b.line)
    fn = ctx.ast.fn(C, "init_context_inner")
    t = flatp(show(fn.body)) if fn else ""
    if has(t, "letre=RenderEffect::newmove|_|{letl=initial_locale.get;locale_signal.setl}") and has(t, "Effect::new_isomorphicmove|_|{letnew_lang=locale_signal.get;set_lang_cookie.setSomenew_lang}"):
        r.inst("init_context_inner#effects", "initial memo -> signal; signal -> cookie (no other writer)")
    else:
        r.viol("R3:init_context_inner#effects", "synchronisation effects changed", file=C)
    callers = sorted({bb.name.split("::")[-1] for (bb, i, t2) in prog.callers_of(r"context::init_context_inner$")})
    if callers == ["init_i18n_context_with_options", "init_subcontext_with_options"]:
        r.inst("callers of init_context_inner", ", ".join(callers))
    else:
        r.viol("R3:init_context_inner#callers", "called from %s" % callers, file=C)
    fn = ctx.ast.fn(C, "init_subcontext_with_options")
    if fn is not None:
        # the parent context must not be read inside a closure (Memo / Effect)
        bad = []
        for cl in find_all(fn.body, "Closure"):
            tt = flat(show(cl["body"]))
            if "use_context" in tt or re.search(r"ctx\.get_locale\(\)", tt):
                if "get_locale_untracked" not in tt or "Memo::new" in tt:
                    bad.append(tt[:80])
        t = flatp(show(fn.body))
        if has(t, "use_context::<I18nContext<L>>.map|ctx|ctx.get_locale_untracked") and not bad:
            r.inst("init_subcontext_with_options#parent", "parent read once with get_locale_untracked, outside the Memo")
        else:
            r.viol("R3:init_subcontext_with_options#parent", "the parent context is read reactively: the sub-context would follow its parent", file=C)
    fn = ctx.ast.fn(C, "run_as_children")
    t = flatp(show(fn.body)) if fn else ""
    if has(t, 'letowner=Owner::current.expect"nocurrentreactiveOwnerfound".child;letchildren=owner.with||{provide_contextctx;children};OwnedView::new_with_ownerchildren,owner'):
        r.inst("run_as_children", "sub-context provided inside owner.child(): invisible to the parent's scope")
    else:
        r.viol("R3:run_as_children", "the sub-context is not provided in a child owner", file=C)
    return r


def run(ctx):
    prog = ctx.mir("main")
    return [r1_single_state(ctx), r2_reread(ctx), r3_isolation(ctx, prog)]


MANIFEST_ENTRY = {
    "technique": "static analysis: MIR return-value / effect summaries (py/mirsum.py) of every I18nContext accessor (one signal read or written), template position of the accessor chain in t!, MIR provenance of the signal stored in a new context",
    "level_text": "Structural clauses only: there is a single place where a context's locale lives and every accessor goes to it; the reactive closure emitted by t! contains the read; each context is built around its own new signal and reads its parent once, untracked. Histories over a live reactive graph are not applicable to static analysis and are not claimed.",
    "level_note": "Trusted: leptos signal semantics. Not decided / not applicable: behaviour over operation sequences.",
}
