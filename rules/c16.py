"""C16 A context always shows the last locale set; sub-contexts are isolated."""
import re

from report import Rule
from mirlib import callee_name, op_const, op_place
import mustlib as M
from astlib import find_all, find_first, show, show_pat, quotes_in, tok_text
from rules.common import flat, flatp, has, same, xquotes

EXPLANATION = (
    "Static structural analysis (syntax facts of context.rs and of the t! template, MIR facts of the context constructors); "
    "nothing executed. Decided structural clauses: (R1) single state: I18nContext holds exactly one stateful field (the "
    "locale RwSignal); every getter reads it, every setter writes it, scope() copies it - so there is no second place a "
    "locale could be remembered or go stale. (R2) re-read: the view flavour of t! puts the `get_keys()` call inside the "
    "emitted closure (evaluated on every run), only the user's argument expressions are hoisted. (R3) isolation: every "
    "context gets its own RwSignal created in init_context_inner; a sub-context reads its parent only once, untracked, "
    "outside any Memo/Effect closure; children are run in a child owner where the sub-context is provided. NOT decided / "
    "not applicable: operation histories on a live reactive graph (leptos' signal semantics)."
)
ASSUMPTIONS = ["RwSignal get/set/write_untracked have leptos' documented semantics", "a closure returned to leptos is re-run when a signal it read changes"]

C = "leptos_i18n/src/context.rs"
TM = "leptos_i18n_macro/src/t_macro/mod.rs"


def r1_single_state(ctx):
    r = Rule("C16.R1", "one stateful field; getters read it, setters write it, scope copies it",
             "`observe the most recently set locale`: a second copy of the locale (cache, cloned signal, write to a temporary) "
             "makes some observers stale", floor=7)
    ast = ctx.ast
    st = ast.struct(C, "I18nContext")
    if st is None:
        r.missing("struct I18nContext")
    else:
        fields = [(f["name"], flat(f["ty"])) for f in st["fields"]]
        if fields == [("locale_signal", "RwSignal<L>"), ("scope_marker", "PhantomData<S>")]:
            r.inst("struct I18nContext", "locale_signal: RwSignal<L> + a PhantomData marker")
        else:
            r.viol("R1:I18nContext#fields", "fields are %s: more than one place can hold a locale" % fields, file=C)
    from rules.common import msum
    prog = ctx.mir("main")
    want = {
        "get_locale": ("Get::get(p1.locale_signal)", []),
        "get_locale_untracked": ("GetUntracked::get_untracked(p1.locale_signal)", []),
        "set_locale": ("Set::set(p1.locale_signal, p2)", []),
        "set_locale_untracked": ("'()'", ["DerefMut::deref_mut(Write::write_untracked(p1.locale_signal)) := p2"]),
        "get_keys": ("LocaleKeys::from_locale(Get::get(p1.locale_signal))", []),
        "get_keys_untracked": ("LocaleKeys::from_locale(GetUntracked::get_untracked(p1.locale_signal))", []),
        "scope": ("I18nContext#I18nContext(p1.locale_signal, PhantomData#PhantomData())", []),
    }
    for name, (w, eff) in want.items():
        got = msum(prog, r"context::I18nContext::<L, S>::%s$" % name)
        if not got:
            r.missing("I18nContext::" + name)
        elif got[0][1] == w and got[0][2] == eff:
            r.inst("I18nContext::" + name, w + (" ; " + "; ".join(eff) if eff else ""))
        else:
            r.viol("R1:I18nContext::" + name, "does `%s` with effects %s, expected `%s` %s (the context's single locale signal)" % (got[0][1], got[0][2], w, eff), file=C)
    return r


def r2_reread(ctx):
    r = Rule("C16.R2", "t! re-reads the context inside the reactive closure",
             "`every reactive accessor created before or after`: a view built from keys read once, outside the closure, keeps the "
             "locale it was created with", floor=5)
    from rules import absint
    from rules.absint import AEval, A, C as K, TOK, CF
    ast = ctx.ast
    fn = ast.fn(TM, "t_macro_inner")
    gk = ast.fn(TM, "get_key", impl_self="InputType")
    if fn is None or gk is None:
        r.missing("t_macro_inner / InputType::get_key")
        return r
    funcs = absint.file_funcs(ast, TM, impl_self="OutputType")
    funcs = {k: v for k, v in funcs.items() if v is not fn.node and k not in ("t_macro_inner", "get_key", "t_macro")}

    def closure_span(text):
        """(start, end) of the brace group that follows `move ||`"""
        i = text.find("move ||")
        if i < 0 or text.find("move ||", i + 1) >= 0:
            return None
        j = text.find("{", i)
        d = 0
        for k2 in range(j, len(text)):
            if text[k2] == "{":
                d += 1
            elif text[k2] == "}":
                d -= 1
                if d == 0:
                    return (j, k2)
        return None
    n_ok = 0
    for inter in (K("Some", ("list", (A("I0"),))), K("None")):
        for cfgv in (True, False):
            ev = AEval(funcs=funcs, builtins={
                "get_key": lambda rr, aa: TOK("GETKEY"),
                "param": lambda rr, aa: ("tuple", (TOK("ARGNAME"), TOK("ARGVALUE"))),
                "get_ident": lambda rr, aa: K("Some", TOK("ARGNAME"))})
            ev.cfg = lambda t, c=cfgv: c
            v = ev.run_fn(fn, [CF("ParsedInput", context=A("CTX"), keys=A("KEYS"), interpolations=inter), A("IT"), K("View")])
            what = "t!(.. %s) [dynamic_load && !ssr = %s]" % ("with arguments" if inter[1] == "Some" else "without arguments", cfgv)
            if isinstance(v, str) or v[0] != "tok":
                r.viol("R2:t_macro_inner#eval", "the expansion of %s cannot be evaluated: %s" % (what, v if isinstance(v, str) else absint.fmt(v)), file=TM, line=fn.line)
                continue
            text = v[1]
            span = closure_span(text)
            occ = [m.start() for m in re.finditer("GETKEY", text)]
            if span is None:
                r.viol("R2:wrapp#view", "the View expansion of %s is not one `move ||` closure: %s" % (what, text[:160]), file=TM, line=fn.line)
            elif not occ or any(not (span[0] < o < span[1]) for o in occ):
                r.viol("R2:t_macro_inner", "the context read (get_key) is not (only) inside the emitted closure for %s: %s" % (what, text[:200]), file=TM, line=fn.line)
            else:
                n_ok += 1
                r.inst(what, "evaluated expansion: the accessor read `get_key` occurs only inside the emitted `move || { .. }`")
    got = {}
    for it in ("Context", "Untracked", "Locale"):
        v = AEval(funcs={}).run_fn(gk, [K(it), TOK("INPUT"), TOK("KEYS")])
        got[it] = flat(v[1]) if not isinstance(v, str) and v[0] == "tok" else str(v)
    if got.get("Context") == "leptos_i18n::I18nContext::get_keys(INPUT).KEYS()":
        r.inst("InputType::Context", "tracked read: I18nContext::get_keys(<input>).<keys>()")
    else:
        r.viol("R2:get_key#Context", "t! does not read the context with the tracked get_keys: %s" % got.get("Context"), file=TM)
    return r


def r3_isolation(ctx, prog):
    r = Rule("C16.R3", "each context owns a fresh signal; the parent is read once, untracked",
             "`a sub-context and its parent never change each other's locale once created`", floor=5)
    from rules.common import msum
    from rules import localeeval, absint as _absint
    decided_inner = True
    try:
        localeeval.check_inner(ctx, r, "R3")
    except _absint.Unknown as u:
        decided_inner = False
        r.viol("R3:init_context_inner#undecided", "init_context_inner cannot be interpreted on the current code (%s): not decided on this tree (fail closed); MIR summaries follow" % str(u)[:300], file=C)
    got = msum(prog, r"context::init_context_inner$", closures=True) if not decided_inner else None
    SIG = "RwSignal::new(GetUntracked::get_untracked(p2))"
    if decided_inner:
        pass
    elif not got:
        r.missing("init_context_inner")
    else:
        name, ret, eff = got[0]
        b = prog.body(name)
        ret = (ret or "").replace(SIG, "SIG")
        eff = sorted(e.replace(SIG, "SIG") for e in eff)
        if ret == "I18nContext#I18nContext(SIG, PhantomData#PhantomData())":
            r.inst("init_context_inner", "returns I18nContext { locale_signal: RwSignal::new(initial_locale.get_untracked()) } - a new signal per call")
        else:
            r.viol("R3:init_context_inner#fresh-signal", "the context is not built around a signal created in this call: returns `%s`" % ret, file=b.file, line=b.line)
        want = sorted(["prelude::on_cleanup(|..|{mem::drop(RenderEffect::new(|..|{Set::set(SIG, Get::get(p2)); '()'}))})",
                       "Effect::new_isomorphic(|..|{Set::set(p1, Option#Some(Get::get(SIG))); '()'})"])
        if eff == want:
            r.inst("init_context_inner#effects", "initial memo -> signal (kept until cleanup); signal -> cookie; no other writer of the signal")
        else:
            r.viol("R3:init_context_inner#effects", "synchronisation effects changed: %s" % eff, file=b.file, line=b.line)
    callers = sorted({bb.name.split("::")[-1] for (bb, i, t2) in prog.callers_of(r"context::init_context_inner$")})
    if callers == ["init_i18n_context_with_options", "init_subcontext_with_options"]:
        r.inst("callers of init_context_inner", ", ".join(callers))
    else:
        r.viol("R3:init_context_inner#callers", "called from %s" % callers, file=C)
    # every way of making a sub-context ends, on every path, in init_subcontext_with_options (which builds around a new signal):
    # none of them may hand back a context obtained elsewhere (the parent's, a cached one) - MIR path enumeration (py/mirsum.py)
    import mirsum
    ctors = {}
    for n2, bb in prog.bodies.items():
        m2 = re.search(r"^leptos_i18n::context::(init_i18n_subcontext\w*|init_subcontext_with_options|provide_i18n_subcontext\w*)$", n2)
        if m2:
            ctors[m2.group(1)] = bb
    if "init_subcontext_with_options" not in ctors or len(ctors) < 3:
        r.missing("sub-context constructors (found %s)" % sorted(ctors))
    for nm, bb in sorted(ctors.items()):
        ps = mirsum.paths(prog, bb, depth=1, max_paths=64)
        if ps is None:
            r.viol("R3:%s#returns" % nm, "the paths of this constructor cannot be enumerated (loop or too many branches): not decided (fail closed)", file=bb.file, line=bb.line)
            continue
        rets = {mirsum.fmt(ret) for _c, _t, ret in ps}
        if nm == "init_subcontext_with_options":
            # (the struct literal itself, or a private constructor around it: what matters is that the signal inside is made here)
            okr = all(re.match(r"^(I18nContext#I18nContext|I18nContext::\w+)\(RwSignal::new\(GetUntracked::get_untracked\(", x) for x in rets)
            what = "a context around `RwSignal::new(<initial>.get_untracked())` created in this call"
        else:
            okr = all(re.match(r"^context::(init_subcontext_with_options|init_i18n_subcontext_with_options|init_context_inner)\(", x) for x in rets)
            what = "the result of init_subcontext_with_options (or, when that is inlined, of init_context_inner, which builds the new signal)"
        if okr and rets:
            r.inst("%s#returns" % nm, "%d path(s), each returns %s" % (len(ps), what))
        else:
            odd = sorted(x for x in rets if not (re.match(r"^(I18nContext#I18nContext|I18nContext::\w+)\(RwSignal::new\(", x) or x.startswith("context::init_")))
            r.viol("R3:%s#returns" % nm, "on some path the sub-context handed back is not %s but `%s`: parent and sub-context would share one locale" % (what, (odd or sorted(rets))[0][:160]), file=bb.file, line=bb.line)
    # who may look an existing context up at all: building the main context (reuse check), building a sub-context (reads the parent
    # once, untracked - checked below), use_i18n_context, and the translation registry; any other body that reaches for the ambient
    # context while a (sub-)context is being built can wire the two together (a derived initial-locale signal, a shared memo ..)
    want_readers = ["context::init_subcontext_with_options", "context::provide_i18n_context_with_options_inner", "context::use_i18n_context", "fetch_translations::register::RegisterCtx::<L>::register"]
    readers = set()
    for n2, bb in prog.bodies.items():
        lookups_ = [(t2.get("func", {}).get("const") or {}).get("fn_full", "") for _i2, t2 in bb.calls() if re.search(r"prelude::(use_context|expect_context)$", callee_name(t2) or "")]
        # (a lookup of the translation *registry* is not a lookup of the locale context: RegisterCtx::register and ::provide_context - which
        # reuses the registry of an enclosing provider - may do it; anything else counts)
        if lookups_ and all("RegisterCtx" in f_ for f_ in lookups_) and re.search(r"RegisterCtx::<L>::(register|provide_context)$", M._root(n2)):
            continue
        if bb.crate != "leptos_i18n" or not lookups_:
            continue
        root2 = M._root(n2).split("leptos_i18n::")[-1]
        own2 = M.owner_of(prog, n2).split("leptos_i18n::")[-1]
        readers.add(root2 if root2 in want_readers or own2 not in want_readers else own2)      # (a private helper of an allowed reader is that reader)
    readers = sorted(readers)
    extra_r = [x for x in readers if x not in want_readers]
    if extra_r:
        r.viol("R3:who-reads-ambient-context", "the ambient context is also looked up in %s: a context built there can follow (or be followed by) another one" % extra_r, file=C)
    elif "context::init_subcontext_with_options" not in readers:
        r.missing("use_context in init_subcontext_with_options")
    else:
        r.inst("who looks the ambient context up", ", ".join(x.split("::")[-1] for x in readers))
    fn = ctx.ast.fn(C, "init_subcontext_with_options")
    if fn is not None:
        # the parent context must not be read inside a closure (Memo / Effect)
        bad = []
        for cl in find_all(fn.body, "Closure"):
            tt = flat(show(cl["body"]))
            if "use_context" in tt or re.search(r"ctx\.get_locale\(\)", tt):
                if "get_locale_untracked" not in tt or "Memo::new" in tt:
                    bad.append(tt[:80])
        t = flatp(show(fn.body))
        if has(t, "use_context::<I18nContext<L>>.map|ctx|ctx.get_locale_untracked") and not bad:
            r.inst("init_subcontext_with_options#parent", "parent read once with get_locale_untracked, outside the Memo")
        else:
            r.viol("R3:init_subcontext_with_options#parent", "the parent context is read reactively: the sub-context would follow its parent", file=C)
    # the sub-context is provided inside a child owner: MIR of run_as_children (and the closures it owns)
    rb = prog.body("leptos_i18n::context::run_as_children")
    if rb is None:
        r.missing("run_as_children")
    else:
        from mirlib import backward_slice
        root = M._root(rb.name)
        owned = [bb for n2, bb in sorted(prog.bodies.items()) if bb.crate == rb.crate and M.owner_of(prog, n2) == root]
        childs = [(bb, i, t) for bb in owned for i, t in bb.calls() if (callee_name(t) or "").endswith("Owner::child")]
        withs = [(bb, i, t) for bb in owned for i, t in bb.calls() if (callee_name(t) or "").endswith("Owner::with")]
        provs = [(bb, i, t) for bb in owned for i, t in bb.calls() if (callee_name(t) or "").endswith("provide_context")]
        views = [(bb, i, t) for bb in owned for i, t in bb.calls() if (callee_name(t) or "").endswith("::new_with_owner")]

        def from_child(bb, op):
            p = op_place(op)
            if p is None:
                return False
            ls, defs = backward_slice(bb, p["l"])
            return any(dj == "term" and (callee_name(ds) or "").endswith("Owner::child") for (di, dj, ds) in defs)
        why = None
        if len(childs) != 1 or len(withs) != 1 or len(provs) != 1:
            why = "expected one Owner::child, one Owner::with and one provide_context (found %d, %d, %d)" % (len(childs), len(withs), len(provs))
        elif not from_child(withs[0][0], withs[0][2]["args"][0]):
            why = "Owner::with is not run on the child owner created here"
        elif "{closure" not in provs[0][0].name or provs[0][0] is withs[0][0]:
            why = "provide_context is not called inside the closure run by the child owner"
        elif not any(from_child(bb, t["args"][1]) for bb, i, t in views if len(t["args"]) > 1):
            why = "the view is not tied to the child owner (OwnedView::new_with_owner)"
        else:
            pb, pi, pt = provs[0]
            kids = [i for i, t in pb.calls() if re.search(r"FnOnce::call_once$|Fn::call$|FnMut::call_mut$", callee_name(t) or "")]
            if not kids or not all(M.must_pass(pb, {pi}, {k}) for k in kids):
                why = "the children are not rendered after provide_context in that closure"
        if why is None:
            r.inst("run_as_children", "Owner::current().child() -> child.with(|| { provide_context(ctx); children() }) -> OwnedView::new_with_owner(_, child): the sub-context is invisible to the parent's scope")
        else:
            r.viol("R3:run_as_children", "the sub-context is not provided in a child owner: " + why, file=rb.file, line=rb.line)
    return r


def run(ctx):
    prog = ctx.mir("main")
    # `every reactive accessor created before or after observes the most recently set locale`, for the macros that do not go
    # through the builders: t_format! / t_plural! generated and read back (rules/reactmacros.py)
    from rules import reactmacros, absint as _absint
    r5 = Rule("C16.R5", "t_format! / t_plural!: the reactive flavours read the locale inside the returned closure",
              "`every reactive accessor created before or after (t!, t_string!, ...) ... observe the most recently set locale`: a view built by t_format! or a "
              "t_plural! on a context is a `move ||` closure; if the locale is read when the closure is built instead of when it runs, the view keeps "
              "the locale of its creation after set_locale", floor=12)
    try:
        reactmacros.check(ctx, r5, "R5")
    except _absint.Unknown as u:
        r5.viol("R5:undecided", "the generators cannot be interpreted on the current code (%s): not decided on this tree (fail closed)" % str(u)[:300])
    from rules import entrytable
    r6 = Rule("C16.R6", "each macro reads the locale the way its name says (tracked context / untracked context / locale value)",
              "`every reactive accessor created before or after (t!, t_string!, ...) ... observe the most recently set locale`: `t_string!` inside a memo or effect follows set_locale only if it reads the context's locale *tracked*; an entry point or wrapper that remaps it to the untracked read freezes every subscriber created before the set", floor=4)
    entrytable.check(ctx, r6, "R6")
    return [r1_single_state(ctx), r2_reread(ctx), r3_isolation(ctx, prog), r5, r6]


MANIFEST_ENTRY = {
    "technique": "static analysis: MIR return-value / effect summaries with closures inlined (py/mirsum.py) of every I18nContext accessor and of init_context_inner, abstract evaluation (rules/absint.py) of the t! expansion (the context read sits inside the emitted closure in all four expansions), MIR owner discipline of run_as_children; MIR path enumeration of every sub-context constructor (each path returns a freshly built context); abstract evaluation of t_format_inner / t_plural_inner with the generated block read back (rules/reactmacros.py: the locale is read inside the returned closure); abstract evaluation of init_context_inner over a model of cells and effects (first-pass timing, tracked reads, effect lifetime; rules/localeeval.py); the macro entry-point table (rules/entrytable.py: each t*/tu*/td* macro passes the selectors its name says, the wrappers hand them on unchanged); MIR who-reads-the-ambient-context",
    "level_text": "Structural clauses only: there is a single place where a context's locale lives and every accessor goes to it; the reactive closure emitted by t! contains the read; each context is built around its own new signal and reads its parent once, untracked. Histories over a live reactive graph are not applicable to static analysis and are not claimed.",
    "level_note": "Trusted: leptos signal semantics. Not decided / not applicable: behaviour over operation sequences.",
}
