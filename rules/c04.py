"""C04 Ranges render the first branch that contains the count."""
import re

from report import Rule
from mirlib import callee_name, op_const, op_place
import mustlib as M
from astlib import find_all, find_first, show, show_pat, quotes_in, tok_text, norm, callee_path, method_chain

EXPLANATION = (
    "Static structural analysis (syntax facts of parser and macro + MIR dominance), nothing executed. Decided clauses: "
    "(R1) the bound semantics written three times agree through the fixed meaning of Rust operators: parse-time "
    "Range::do_match (Exact ==, start rejects when start > count, Included >=, Excluded >, Unbounded/Fallback true, "
    "Multiple any) vs generated match patterns (Included ..=, Excluded .., Unbounded start.., Multiple |, Fallback _) vs "
    "generated float conditions (==, RangeBounds::contains of the same pattern, ||, no condition for the fallback). "
    "(R2) first match wins: find_value scans forward and returns at the first do_match; all four generators iterate the "
    "branches forward with no rev/skip/take/filter. (R3) exclusive integer ends become checked_sub(1) -> Included, float "
    "ends stay Excluded, Range::new rejects end <= start (exclusive) and end < start (inclusive) and keeps the parsed "
    "start/end in their slots. (R4) ParsedValueSeed::visit_seq only returns Ok(Ranges) after the fallback-position, "
    "fallback-multiplicity, float-needs-fallback and non-empty tests. (R5) a literal count is converted to the range type "
    "only through TryFrom (the sole `as` cast is f64 -> f32). (R6) the selected branch is populated with the whole argument "
    "map and a non-literal count renames the count key. NOT decided: numeric parsing of bounds, behaviour at type extremes, "
    "and which branch a concrete number selects."
)
ASSUMPTIONS = [
    "Rust range patterns / RangeBounds::contains mean what the reference says",
    "quote! interpolation emits the tokens of the interpolated value unchanged",
]

PR = "leptos_i18n_parser/src/parse_locales/ranges.rs"
MR = "leptos_i18n_macro/src/load_locales/ranges.rs"
PV = "leptos_i18n_parser/src/parse_locales/parsed_value.rs"


def flat(s):
    return re.sub(r"\s+", "", s)


from rules.common import flatp, has, same, xquotes  # noqa: E402


def cmp_canon(text):
    """canonical form `count OP e` of a comparison between a deref'd bound variable and count"""
    t = flat(text).strip("()")
    m = re.match(r"^\*?(\w+)(==|>=|<=|>|<)count$", t)
    if m:
        flip = {"==": "==", ">=": "<=", "<=": ">=", ">": "<", "<": ">"}
        return "count" + flip[m.group(2)] + "B"
    m = re.match(r"^count(==|>=|<=|>|<)\*?(\w+)$", t)
    if m:
        return "count" + m.group(1) + "B"
    return t


def arms_by_variant(match):
    out = {}
    for a in match["arms"]:
        out[show_pat(a["pat"])] = a
    return out


def r1_semantics(ctx):
    r = Rule("C04.R1", "bound semantics agree: do_match vs generated patterns vs float conditions",
             "the three encodings decide which branch renders; if one treats an inclusive end as exclusive (or a fallback as "
             "a condition) the run-time choice, the parse-time choice or the float choice differs from what the file says",
             floor=17)
    ast = ctx.ast
    fn = ast.fn(PR, "do_match")
    if fn is None:
        r.missing("Range::do_match")
    else:
        m = find_first(fn.body, "Match")
        arms = arms_by_variant(m) if m else {}
        def arm(prefix):
            for k, a in arms.items():
                if k.startswith(prefix):
                    return a
            return None
        a = arm("Range::Exact")
        got = cmp_canon(show(a["body"])) if a else None
        if got != "count==B":
            r.viol("R1:do_match#Exact", "Exact must compare with == (found %s)" % got, file=fn.file, line=fn.line)
        else:
            r.inst("do_match#Exact", "v == count")
        a = arm("Range::Bounds")
        if a is None:
            r.missing("do_match arm Bounds")
        else:
            body_txt = flat(show(a["body"]))
            # start guard: reject when start > count
            mm = re.search(r"ifmatches!\(start,Some\((\w+)\)if(.+?)\)\{returnfalse;?\}", body_txt)
            sg = cmp_canon(mm.group(2)) if mm else None
            if sg != "count<B":
                r.viol("R1:do_match#start", "start bound must reject exactly when start > count (found %s)" % (sg or body_txt[:80]), file=fn.file, line=a["line"])
            else:
                r.inst("do_match#start", "Some(s) if s > count => no match (start is inclusive)")
            em = [x for x in find_all(a["body"], "Match") if show(x["scrutinee"]) == "end"]
            earms = arms_by_variant(em[0]) if em else {}
            want = {"Bound::Included": "count<=B", "Bound::Excluded": "count<B", "Bound::Unbounded": "true"}
            for pre, w in want.items():
                g = None
                for k, ea in earms.items():
                    if k.startswith(pre):
                        g = cmp_canon(show(ea["body"]))
                if g != w:
                    r.viol("R1:do_match#" + pre, "%s must evaluate `%s` (found %s)" % (pre, w, g), file=fn.file, line=a["line"])
                else:
                    r.inst("do_match#" + pre, w.replace("B", "end"))
        a = arm("Range::Multiple")
        t = flat(show(a["body"])) if a else ""
        if not re.match(r"^ranges\.iter\(\)\.any\(\|(\w+)\|\1\.do_match\(count\)\)$", t):
            r.viol("R1:do_match#Multiple", "Multiple must be `any` alternative matching (found %s)" % t[:80], file=fn.file, line=fn.line)
        else:
            r.inst("do_match#Multiple", "ranges.iter().any(|r| r.do_match(count))")
        a = arm("Range::Fallback")
        if a is None or show(a["body"]) != "true":
            r.viol("R1:do_match#Fallback", "Fallback must match everything", file=fn.file, line=fn.line)
        else:
            r.inst("do_match#Fallback", "true")
    # generated patterns
    fn = ast.fn(MR, "range_to_token_stream")
    if fn is None:
        r.missing("range_to_token_stream")
    else:
        m = find_first(fn.body, "Match")
        want = {
            "Range::Exact(": ["#num"],
            "Range::Bounds { start: start, end: Bound::Included(end) }": ["#start ..= #end"],
            "Range::Bounds { start: start, end: Bound::Unbounded }": ["#start .."],
            "Range::Bounds { start: start, end: Bound::Excluded(end) }": ["#start .. #end"],
            "Range::Fallback": ["_"],
            "Range::Multiple(": ["#first #(| #matchs)*", ""],
        }
        seen = set()
        for a in (m or {"arms": []})["arms"]:
            p = show_pat(a["pat"])
            for k, w in want.items():
                if p.startswith(k):
                    seen.add(k)
                    qs = sorted(tok_text(q["tokens"]) for q in xquotes(a["body"]))
                    # variable names of the interpolations are bound by the pattern: normalise
                    binds = re.findall(r"\b(\w+)\b", p.split("(")[-1] if "(" in p and "{" not in p else "")
                    if k == "Range::Exact(" and binds:
                        qs = [q.replace("#" + binds[0], "#num") for q in qs]
                    if sorted(w) != qs:
                        r.viol("R1:range_to_token_stream#" + k, "pattern for %s is `%s`, expected `%s`" % (k, qs, w), file=fn.file, line=a["line"])
                    else:
                        r.inst("range_to_token_stream#" + k.strip("( "), " / ".join(q for q in qs if q) or "(empty)")
                    if k == "Range::Multiple(":
                        t = flat(show(a["body"]))
                        if not has(t, "matchs.iter().map(range_to_token_stream)"):
                            r.viol("R1:range_to_token_stream#Multiple-rec", "alternatives are not rendered by range_to_token_stream in order", file=fn.file, line=a["line"])
        for k in want:
            if k not in seen:
                r.viol("R1:range_to_token_stream#missing" + k, "no arm for %s" % k, file=fn.file, line=fn.line)
    fn = ast.fn(MR, "range_to_condition")
    if fn is None:
        r.missing("range_to_condition")
    else:
        m = find_first(fn.body, "Match")
        arms = arms_by_variant(m) if m else {}
        for k, a in arms.items():
            body = flat(show(a["body"]))
            qs = [tok_text(q["tokens"]) for q in xquotes(a["body"])]
            if k.startswith("Range::Exact"):
                v = re.findall(r"\((\w+)\)", k)
                ok = qs == ["plural_count == #%s" % (v[0] if v else "exact")] and body.startswith("Some(")
                what = "plural_count == #exact"
            elif k.startswith("Range::Bounds"):
                ok = qs == ["core :: ops :: RangeBounds :: contains (& (#ts) , & plural_count)"] and has(body, "letts=range_to_token_stream(range)") and has(body, "Some(")
                what = "RangeBounds::contains(&(pattern), &plural_count) with the pattern of range_to_token_stream"
            elif k.startswith("Range::Multiple"):
                ok = qs == ["#first #(|| #conditions)*"] and has(body, "conditions.iter().filter_map(range_to_condition)")
                what = "cond || cond ..."
            elif k.startswith("Range::Fallback"):
                ok = show(a["body"]) == "None"
                what = "None (unconditional)"
            else:
                ok, what = False, "unknown arm"
            if ok:
                r.inst("range_to_condition#" + k.split("(")[0].split(" ")[0], what)
            else:
                r.viol("R1:range_to_condition#" + k.split("(")[0].split(" ")[0], "float condition for %s changed: %s / %s" % (k, qs, body[:100]), file=fn.file, line=a["line"])
        for need in ("Range::Exact", "Range::Bounds", "Range::Multiple", "Range::Fallback"):
            if not any(k.startswith(need) for k in arms):
                r.viol("R1:range_to_condition#missing-" + need, "no arm for " + need, file=fn.file, line=fn.line)
    return r


BAD_ADAPTORS = {"rev", "skip", "take", "filter", "step_by", "skip_while", "take_while", "rposition", "rfind", "last", "nth", "max_by", "min_by", "max_by_key", "min_by_key"}


def r2_first_match(ctx):
    r = Rule("C04.R2", "first declared branch wins (forward scan, forward generation)",
             "branches may overlap; rendering any branch but the first containing the count contradicts the declaration order",
             floor=5)
    ast = ctx.ast
    fn = ast.fn(PR, "find_value")
    if fn is None:
        r.missing("find_value")
    else:
        loops = list(find_all(fn.body, "ForLoop"))
        ok = False
        if len(loops) == 1:
            it = flat(show(loops[0]["iter"]))
            body = flat(show(loops[0]["body"]))
            pat = flat(show_pat(loops[0]["pat"]))
            ok = it == "v" and pat == "(range,value)" and re.match(r"^\{ifrange\.do_match\(count\)\{returnvalue\.populate\(args,foreign_key,locale,key_path\);?\};?\}$", body) is not None
        if ok:
            r.inst("find_value", "for (range, value) in v { if range.do_match(count) { return value.populate(args, ..) } }")
        else:
            r.viol("R2:find_value", "parse-time selection is no longer a forward scan returning the first matching branch", file=fn.file, line=fn.line)
    for name in ("to_tokens_integers", "to_tokens_integers_string", "to_tokens_floats", "to_tokens_floats_string"):
        fn = ast.fn(MR, name)
        if fn is None:
            r.missing(name)
            continue
        chains = []
        for l in find_all(fn.body, "Let"):
            if "init" in l and show_pat(l["pat"]).split()[-1] in ("match_arms", "ifs"):
                base, ch = method_chain(l["init"])
                chains.append((show(base), [m for m, _, _ in ch]))
        if len(chains) < 1:
            r.viol("R2:%s#iter" % name, "cannot find the branch iteration (`match_arms` / `ifs`)", file=fn.file, line=fn.line)
            continue
        base, meths = chains[0]
        bad = [m for m in meths if m in BAD_ADAPTORS]
        if base != "ranges" or meths[0] != "iter" or bad:
            r.viol("R2:%s#order" % name, "branches are generated from `%s.%s` (must be ranges.iter() with no reordering/filtering adaptor)" % (base, ".".join(meths)), file=fn.file, line=fn.line)
        else:
            r.inst(name, "ranges.%s -> arms in declaration order" % ".".join(meths))
        if "floats" in name:
            # first `if`, the rest chained with else, in iterator order
            qs = [tok_text(q["tokens"]) for q in xquotes(fn.body)]
            if "#first #(else #ifs)*" not in qs:
                r.viol("R2:%s#chain" % name, "float branches are not emitted as `first else second else ...`", file=fn.file, line=fn.line)
            else:
                r.inst(name + "#chain", "#first #(else #ifs)*")
    return r


def r3_ends(ctx):
    r = Rule("C04.R3", "exclusive/inclusive end handling in the parser",
             "`a..b` must exclude b and `a..=b` include it for every numeric type; an off-by-one here changes which counts a branch accepts",
             floor=6)
    ast = ctx.ast
    # macro_rules tables impl_num / impl_floats
    txt = ctx.read(PR)
    m_int = re.search(r"macro_rules!\s*impl_num\s*\{(.*?)\n    macro_rules!", txt, re.S)
    m_flt = re.search(r"macro_rules!\s*impl_floats\s*\{(.*?)\n    impl_num!", txt, re.S)
    mods = [im for (p, mods_, im) in ast.item_macros if p.endswith("parse_locales/ranges.rs") and im.get("ident") in ("impl_num", "impl_floats")]
    found = {}
    for im in mods:
        t = flat(im.get("text", ""))
        mm = re.search(r"fnrange_end_bound\(self\)->Option<Bound<Self>>\{(.*?)\}", t)
        found[im["ident"]] = mm.group(1) if mm else None
    want = {"impl_num": "self.checked_sub(1).map(Bound::Included)", "impl_floats": "Some(Bound::Excluded(self))"}
    for k, w in want.items():
        if found.get(k) != w:
            r.viol("R3:%s#range_end_bound" % k, "exclusive end conversion is `%s`, expected `%s`" % (found.get(k), w), file=PR)
        else:
            r.inst(k + "#range_end_bound", w)
    # which types use which macro
    calls = {}
    for (p, mods_, im) in ast.item_macros:
        if p.endswith("parse_locales/ranges.rs") and im.get("path") in ("impl_num", "impl_floats") and not im.get("ident"):
            calls[im["path"]] = sorted(re.findall(r"\(\s*(\w+)\s*,\s*(\w+)\s*\)", im.get("text", "")))
    wi = sorted([("i8", "I8"), ("i16", "I16"), ("i32", "I32"), ("i64", "I64"), ("u8", "U8"), ("u16", "U16"), ("u32", "U32"), ("u64", "U64")])
    wf = sorted([("f32", "F32"), ("f64", "F64")])
    if calls.get("impl_num") != wi or calls.get("impl_floats") != wf:
        r.viol("R3:impl-table", "numeric type table changed: ints %s floats %s" % (calls.get("impl_num"), calls.get("impl_floats")), file=PR)
    else:
        r.inst("impl_num!/impl_floats!", "8 integer types -> integer rule, f32/f64 -> float rule, TYPE tags match the type names")
    fn = ast.fn(PR, "new", impl_self="Range")
    if fn is None:
        r.missing("Range::new")
        return r
    body = flatp(show(fn.body))
    checks = {
        "end-empty->Unbounded": "ifend.is_empty(){Bound::Unbounded}",
        "=end->Included": "elseifletSome(end)=end.strip_prefix('=').map(str::trim_start){Bound::Included(parse(end)?)}",
        "end->range_end_bound": "letend=parse(end)?;end.range_end_bound().ok_or_else(",
        "impossible-excluded": "Bound::Excluded(end)if(end<=start)=>{returnErr(Error::ImpossibleRange(",
        "impossible-included": "Bound::Included(end)if(end<start)=>{returnErr(Error::ImpossibleRange(",
        "slots": "Ok(Self::Bounds{start:start,end:end})",
        "split": "ifletSome((start,end))=s.split_once(\"..\")",
        "exact": "parse(s).map(Self::Exact)",
        "fallback": "ifmatches!(s,\"_\"|\"..\"){returnOk(Self::Fallback);}",
        "alternatives": "s.split('|').map(|s|Self::new(s)).collect::<Result<_>>().map(Self::Multiple).map(Self::flatten)",
    }
    for k, frag in checks.items():
        frag = flatp(frag)
        if frag in body:
            r.inst("Range::new#" + k, frag[:90])
        else:
            r.viol("R3:Range::new#" + k, "Range::new no longer contains the step `%s`" % frag[:90], file=fn.file, line=fn.line)
    return r


def r4_validation(ctx, prog):
    r = Rule("C04.R4", "range validation dominates acceptance",
             "a misplaced or duplicate fallback, a float range without fallback or an empty range would make a later branch "
             "unreachable or leave counts without any branch", floor=5)
    b = prog.body("<leptos_i18n_parser::parse_locales::parsed_value::ParsedValueSeed<'_> as serde::de::Visitor<'de>>::visit_seq")
    if b is None:
        r.missing("ParsedValueSeed::visit_seq")
        return r
    oks = M.ok_return_blocks(b)
    if len(oks) != 1:
        r.viol("R4:visit_seq#ok", "expected one Ok(ParsedValue::Ranges) return, found %d" % len(oks), file=b.file)
        return r
    ok = oks[0]
    chk = M.call_blocks(b, r"ranges::Ranges::check_deserialization$")
    if not chk or not M.must_pass(b, chk, [ok]):
        r.viol("R4:visit_seq#check_deserialization", "Ok(Ranges) reachable without check_deserialization()", file=b.file, line=b.line)
    else:
        r.inst("visit_seq#check_deserialization", "dominates Ok")
    for variant in ("InvalidFallback", "MultipleFallbacks", "MissingFallback", "NestedRanges"):
        errs = M.agg_blocks(b, "error::Error", variant)
        if not errs:
            r.viol("R4:visit_seq#" + variant, "Error::%s is no longer produced by visit_seq" % variant, file=b.file, line=b.line)
            continue
        fine = True
        for e in errs:
            if b.paths_avoiding(e, [ok], []):
                fine = False
                r.viol("R4:visit_seq#%s-falls-through" % variant, "the %s branch can reach Ok" % variant, file=b.file)
            if not M.alternatives(b, e, ok):
                fine = False
                r.viol("R4:visit_seq#%s-not-dominating" % variant, "the test that yields %s and Ok(Ranges) are not the two outcomes of one decision on every path" % variant, file=b.file)
        if fine:
            r.inst("visit_seq#" + variant, "its test dominates Ok(Ranges); the error branch cannot reach Ok")
    # the three values tested come from check_deserialization in order
    fn = ctx.ast.fn(PV, "visit_seq", impl_self="ParsedValueSeed")
    if fn is not None:
        t = flat(show(fn.body))
        seq = ["ifinvalid_fallback{Err(", "elseif(fallback_count>1){Err(", "elseif((fallback_count==0)&&should_have_fallback){Err("]
        pos = [t.find(x) for x in seq]
        if -1 in pos or pos != sorted(pos) or not has(t, "let(invalid_fallback,fallback_count,should_have_fallback)=ranges.check_deserialization()"):
            r.viol("R4:visit_seq#conditions", "the fallback conditions changed: expected invalid_fallback / fallback_count > 1 / fallback_count == 0 && should_have_fallback", file=fn.file, line=fn.line)
        else:
            r.inst("visit_seq#conditions", "invalid_fallback; fallback_count > 1; fallback_count == 0 && should_have_fallback")
    b2 = prog.body("ranges::Ranges::from_serde_seq")
    if b2 is None:
        r.missing("Ranges::from_serde_seq")
    else:
        oks2 = M.ok_return_blocks(b2)
        em = M.call_blocks(b2, r"ranges::Ranges::is_empty$")
        errs = [i for i, t in b2.calls() if any((op_const(a) or {}).get("fn", "").endswith("Error::EmptyRange") for a in t["args"])] + M.agg_blocks(b2, "error::Error", "EmptyRange")
        if not oks2 or not em or not M.must_pass(b2, em, oks2) or not errs:
            r.viol("R4:from_serde_seq#non-empty", "Ok(ranges) reachable without the non-empty test (a typed range without branches would be accepted)", file=b2.file, line=b2.line)
        else:
            rsw = M.result_switch(b2, em[0])
            if rsw and any(M.exclusive_reach(b2, rsw[1], e, rsw[2]) for e in errs) and not M.exclusive_reach(b2, rsw[1], oks2[0], rsw[2]):
                r.inst("from_serde_seq#non-empty", "is_empty() dominates Ok; true side returns EmptyRange")
            else:
                r.viol("R4:from_serde_seq#non-empty-polarity", "is_empty() is tested but its true side does not end in EmptyRange", file=b2.file, line=b2.line)
    # check_de_inner semantic pieces
    fn = ctx.ast.fn(PR, "check_de_inner")
    if fn is None:
        r.missing("check_de_inner")
    else:
        t = flat(show(fn.body))
        need = {
            "invalid_fallback": "ranges.iter().rev().skip(1).any(",
            "fallback_count": "ranges.iter().filter(|(range,_)|matches!(range,Range::Fallback)).count()",
            "should_have_fallback": "T::TYPE.should_have_fallback()",
            "tuple": "(invalid_fallback,fallback_count,T::TYPE.should_have_fallback())",
        }
        for k, frag in need.items():
            if frag not in t:
                r.viol("R4:check_de_inner#" + k, "check_de_inner lost `%s`" % frag, file=fn.file, line=fn.line)
            else:
                r.inst("check_de_inner#" + k, frag[:80])
    fn = ctx.ast.fn(PR, "should_have_fallback")
    if fn is not None:
        t = flatp(show(fn.body))
        if t not in ("{matches!self,RangeType::F64|RangeType::F32}", "{matches!self,RangeType::F32|RangeType::F64}"):
            r.viol("R4:should_have_fallback", "float types must (and only they) require a fallback: %s" % t, file=fn.file, line=fn.line)
        else:
            r.inst("should_have_fallback", "F32 | F64")
    return r


def r5_conversions(ctx, prog):
    r = Rule("C04.R5", "literal count conversion is lossless (TryFrom) before selection",
             "an `as` cast would wrap a literal count (300 as u8 = 44) and select a different branch than the run-time path", floor=2)
    b = prog.body("ranges::Ranges::populate_with_count_arg")
    if b is None:
        r.missing("populate_with_count_arg")
        return r
    casts = []
    for i, j, s in b.assigns():
        rv = s["rv"]
        if rv["k"] == "Cast" and rv["cast"] in ("IntToInt", "FloatToInt", "IntToFloat", "FloatToFloat"):
            src = op_place(rv["ops"][0])
            sty = b.local_ty(src["l"]) if src and not src["p"] else "?"
            casts.append((sty, rv["ty"], s["line"]))
    bad = [c for c in casts if not (c[0] == "f64" and c[1] == "f32")]
    r.inst("populate_with_count_arg#casts", "numeric casts: %s" % casts)
    for c in bad:
        r.viol("R5:populate_with_count_arg#cast", "lossy `as` cast %s -> %s of the literal count (line %d)" % c, file=b.file, line=c[2])
    tf = M.call_blocks(b, r"populate_with_count_arg::try_from$")
    fv = M.call_blocks(b, r"populate_with_count_arg::find_value$")
    r.inst("populate_with_count_arg#try_from", "%d try_from conversions feeding %d find_value calls" % (len(tf), len(fv)))
    if len(tf) < 14:
        r.viol("R5:populate_with_count_arg#try_from", "only %d TryFrom conversions left (14 on the pinned tree: 7 for unsigned + 7 for signed literals)" % len(tf), file=b.file, line=b.line)
    tfb = prog.body("populate_with_count_arg::try_from")
    if tfb is None or not M.call_blocks(tfb, r"TryFrom<.*>>::try_from$|std::convert::TryFrom::try_from$"):
        r.viol("R5:try_from#impl", "helper try_from no longer converts with TryFrom::try_from", file=b.file)
    return r


def r6_populate(ctx):
    r = Rule("C04.R6", "selected branch keeps all arguments; a variable count renames the count key",
             "`{{ count }}` inside the branch must show the literal and other arguments must still be substituted", floor=3)
    ast = ctx.ast
    fn = ast.fn(PR, "populate", impl_self="Ranges")
    if fn is None:
        r.missing("Ranges::populate")
    else:
        t = flat(show(fn.body))
        want = '{ifletSome(count_arg)=args.get("var_count"){self.populate_with_count_arg(count_arg,args,foreign_key,locale,key_path)}else{self.populate_with_new_key(self.count_key.clone(),args,foreign_key,locale,key_path)}}'
        if not same(t, want):
            r.viol("R6:Ranges::populate", "Ranges::populate changed: %s" % t[:160], file=fn.file, line=fn.line)
        else:
            r.inst("Ranges::populate", "count arg present -> populate_with_count_arg(count_arg, args, ..) else keep own count key")
    fn = ast.fn(PR, "populate_with_count_arg", impl_self="Ranges")
    if fn is not None:
        t = flat(show(fn.body))
        for k, frag in {"bloc": "ParsedValue::Bloc(values)=>{letnew_key=Plurals::find_variable(values,locale,key_path,foreign_key)?;self.populate_with_new_key(new_key,args,foreign_key,locale,key_path)}",
                        "variable": "ParsedValue::Variable{key:key,..}=>{self.populate_with_new_key(key.clone(),args,foreign_key,locale,key_path)}"}.items():
            if has(t, frag):
                r.inst("populate_with_count_arg#" + k, "variable count renames the count key")
            else:
                r.viol("R6:populate_with_count_arg#" + k, "a `{{ var }}` count no longer renames the count variable", file=fn.file, line=fn.line)
    fns = [f for f in ast.fns_named(PR, "inner") if f.qual.endswith("Ranges::populate_with_new_key::inner")]
    outer = ast.fn(PR, "populate_with_new_key", impl_self="Ranges")
    fn = fns[0] if fns else None
    if fn is None or outer is None:
        r.missing("Ranges::populate_with_new_key(::inner)")
    else:
        t = flat(show(fn.body)) + flat(show(outer.body))
        if not has(t, "count_key:new_key") or not has(t, "letvalue=value.populate(args,foreign_key,locale,key_path)?;values.push((range,value));") or not has(t, "letrange=Clone::clone(range);"):
            r.viol("R6:populate_with_new_key", "branches are not copied (same range, populated value, in order) under the new count key", file=fn.file, line=fn.line)
        else:
            r.inst("populate_with_new_key", "each (range, value) -> (range.clone(), value.populate(args)) pushed in order; count_key = new_key")
    return r


TYPES = ["I8", "I16", "I32", "I64", "U8", "U16", "U32", "U64", "F32", "F64"]


def r7_type_tables(ctx):
    r = Rule("C04.R7", "numeric-type dispatch tables are the identity",
             "the range type written in the file (\"u8\", ...) decides parsing, conversion of a literal count and the generated "
             "count type; one crossed arm in any 10-way table makes one numeric type behave as another", floor=6)
    ast = ctx.ast
    def table(fn):
        m = find_first(fn.body, "Match")
        out = {}
        for a in (m or {"arms": []})["arms"]:
            pt = show_pat(a["pat"])
            pm = re.search(r"(?:RangeType|UntypedRangesInner)::(\w+)", pt)
            key = pm.group(1) if pm else pt
            bt = show(a["body"])
            vals = set(re.findall(r"(?:RangeType|UntypedRangesInner)::(\w+)", bt))
            lit = re.findall(r'"(\w+)"', bt)
            q = [tok_text(x["tokens"]) for x in xquotes(a["body"])]
            out[key] = (vals, lit, q, bt)
        return out
    checks = [
        ("Ranges::from_type", ast.fn(PR, "from_type", impl_self="Ranges"), "variant"),
        ("Ranges::get_type", ast.fn(PR, "get_type", impl_self="Ranges"), "variant"),
        ("Ranges::populate_with_new_key", ast.fn(PR, "populate_with_new_key", impl_self="Ranges"), "variant"),
        ("Display for RangeType", ast.fn(PR, "fmt", impl_self="RangeType", impl_trait="Display"), "lit-lower"),
        ("macro From<parser RangeType>", ast.fn(MR, "from", impl_self="RangeType"), "variant"),
        ("macro RangeType::to_tokens", ast.fn(MR, "to_tokens", impl_self="RangeType"), "quote-lower"),
    ]
    for name, fn, mode in checks:
        if fn is None:
            r.missing(name)
            continue
        tab = table(fn)
        bad = []
        for t in TYPES:
            vals, lit, q, bt = tab.get(t, (set(), [], [], ""))
            if mode == "variant" and vals != {t}:
                bad.append("%s -> %s" % (t, sorted(vals)))
            if mode == "lit-lower" and lit != [t.lower()]:
                bad.append("%s -> %s" % (t, lit))
            if mode == "quote-lower" and q != [t.lower()]:
                bad.append("%s -> %s" % (t, q))
        if bad:
            r.viol("R7:" + name, "table is not the identity: " + "; ".join(bad), file=fn.file, line=fn.line)
        else:
            r.inst(name, "identity on " + ", ".join(TYPES))
    fn = ast.fn(PR, "from_string", impl_self="TypeOrRange")
    if fn is None:
        r.missing("TypeOrRange::from_string")
    else:
        m = find_first(fn.body, "Match")
        got = {}
        for a in (m or {"arms": []})["arms"]:
            if a["pat"]["k"] == "PLit":
                got[a["pat"]["text"].strip('"')] = re.findall(r"RangeType::(\w+)", show(a["body"]))
        bad = [t for t in TYPES if got.get(t.lower()) != [t]]
        if bad or flat(show(m["scrutinee"])) not in ("s.trim()", "s"):
            r.viol("R7:TypeOrRange::from_string", "type names do not map to the same-named RangeType for %s" % bad, file=fn.file, line=fn.line)
        else:
            r.inst("TypeOrRange::from_string", "\"i8\"..\"f64\" -> same-named RangeType")
    # integer generator vs float generator dispatch (view and string back-ends)
    for name in ("to_token_stream", "as_string_impl"):
        cands = [f for f in ast.fns_named(MR, name) if f.impl_self is None]
        if not cands:
            r.missing("ranges::" + name)
            continue
        fn = cands[0]
        m = find_first(fn.body, "Match")
        want_int = "to_tokens_integers" + ("_string" if name == "as_string_impl" else "")
        want_flt = "to_tokens_floats" + ("_string" if name == "as_string_impl" else "")
        bad = []
        for a in (m or {"arms": []})["arms"]:
            pm = re.search(r"UntypedRangesInner::(\w+)", show_pat(a["pat"]))
            callee = [callee_path(c) for c in find_all(a["body"], "Call")]
            args = [[show(x) for x in c["args"]] for c in find_all(a["body"], "Call")]
            want = want_flt if pm and pm.group(1) in ("F32", "F64") else want_int
            if callee != [want] or args != [["ranges", "&this.count_key", "strings_count"]]:
                bad.append("%s -> %s%s" % (pm.group(1) if pm else "?", callee, args))
        if bad or not m or len(m["arms"]) != 10:
            r.viol("R7:ranges::" + name, "dispatch changed: " + "; ".join(bad), file=fn.file, line=fn.line)
        else:
            r.inst("ranges::" + name, "8 integer types -> %s, F32/F64 -> %s, same (ranges, count_key, strings_count)" % (want_int, want_flt))
    return r


def run(ctx):
    prog = ctx.mir("main")
    return [r1_semantics(ctx), r2_first_match(ctx), r3_ends(ctx), r4_validation(ctx, prog), r5_conversions(ctx, prog), r6_populate(ctx), r7_type_tables(ctx)]


MANIFEST_ENTRY = {
    "technique": "static analysis: syn extraction and cross-comparison of the three bound-semantics encodings (parser match, generated patterns, generated float conditions), iteration-order adaptor check, MIR dominance of range validation, MIR cast scan",
    "level_text": "Structural: the operator tables that define which counts a branch accepts are extracted from the parser and from both code generators on each run and must agree through the fixed meaning of Rust's operators; branch order, validation dominance and lossless literal conversion are decided on the AST/CFG. Nothing is evaluated for concrete numbers.",
    "level_note": "Trusted: Rust pattern/RangeBounds semantics; str::parse. Not decided: behaviour at numeric extremes, concrete selections.",
}
