"""C04 Ranges render the first branch that contains the count."""
import re

from report import Rule
from mirlib import callee_name, op_const, op_place
import mustlib as M
from astlib import find_all, find_first, show, show_pat, quotes_in, tok_text, norm, callee_path, method_chain

EXPLANATION = (
    "Static structural analysis (syntax facts of parser and macro + MIR dominance), nothing executed. Decided clauses: "
    "(R1) the bound semantics written three times agree through the fixed meaning of Rust operators: parse-time "
    "Range::do_match (Exact ==, start rejects when start > count, Included >=, Excluded >, Unbounded/Fallback true, "
    "Multiple any) vs generated match patterns (Included ..=, Excluded .., Unbounded start.., Multiple |, Fallback _) vs "
    "generated float conditions (==, RangeBounds::contains of the same pattern, ||, no condition for the fallback). "
    "(R2) first match wins: find_value scans forward and returns at the first do_match; all four generators iterate the "
    "branches forward with no rev/skip/take/filter. (R3) exclusive integer ends become checked_sub(1) -> Included, float "
    "ends stay Excluded, Range::new rejects end <= start (exclusive) and end < start (inclusive) and keeps the parsed "
    "start/end in their slots. (R4) ParsedValueSeed::visit_seq only returns Ok(Ranges) after the fallback-position, "
    "fallback-multiplicity, float-needs-fallback and non-empty tests. (R5) a literal count is converted to the range type "
    "only through TryFrom (the sole `as` cast is f64 -> f32). (R6) the selected branch is populated with the whole argument "
    "map and a non-literal count renames the count key. NOT decided: numeric parsing of bounds, behaviour at type extremes, "
    "and which branch a concrete number selects."
)
ASSUMPTIONS = [
    "Rust range patterns / RangeBounds::contains mean what the reference says",
    "quote! interpolation emits the tokens of the interpolated value unchanged",
]

PR = "leptos_i18n_parser/src/parse_locales/ranges.rs"
MR = "leptos_i18n_macro/src/load_locales/ranges.rs"
PV = "leptos_i18n_parser/src/parse_locales/parsed_value.rs"


def flat(s):
    return re.sub(r"\s+", "", s)


from rules.common import flatp, has, same, xquotes  # noqa: E402


def cmp_canon(text):
    """canonical form `count OP e` of a comparison between a deref'd bound variable and count"""
    t = flat(text).strip("()")
    m = re.match(r"^\*?(\w+)(==|>=|<=|>|<)count$", t)
    if m:
        flip = {"==": "==", ">=": "<=", "<=": ">=", ">": "<", "<": ">"}
        return "count" + flip[m.group(2)] + "B"
    m = re.match(r"^count(==|>=|<=|>|<)\*?(\w+)$", t)
    if m:
        return "count" + m.group(1) + "B"
    return t


def arms_by_variant(match):
    out = {}
    for a in match["arms"]:
        out[show_pat(a["pat"])] = a
    return out


def _spec_match(rng, c):
    """documented semantics of a range on a count"""
    from rules.absint import fields_of
    if rng[1] == "Exact":
        return c == rng[2][0][1]
    if rng[1] == "Fallback":
        return True
    if rng[1] == "Multiple":
        return any(_spec_match(x, c) for x in rng[2][0][1])
    f = fields_of(rng)
    st, en = f["start"], f["end"]
    if st[1] == "Some" and c < st[2][0][1]:
        return False
    if en[1] == "Included":
        return c <= en[2][0][1]
    if en[1] == "Excluded":
        return c < en[2][0][1]
    return True


def _pattern_accepts(text, c):
    """does the Rust pattern / range expression `text` (as generated) accept the integer c? None if not understood"""
    text = text.strip()
    alts = [a.strip() for a in text.split("|") if a.strip() != ""] if "|" in text and "||" not in text else [text]
    if len(alts) > 1:
        rs = [_pattern_accepts(a, c) for a in alts]
        return None if None in rs else any(rs)
    t = text.replace(" ", "")
    if t in ("_", ".."):
        return True
    m = re.match(r"^(-?\d+)?(\.\.=?)?(-?\d+)?$", t)
    if not m or (m.group(2) is None and m.group(3) is not None):
        return None
    lo, op, hi = m.group(1), m.group(2), m.group(3)
    if op is None:
        return c == int(lo) if lo is not None else None
    if lo is not None and c < int(lo):
        return False
    if hi is not None:
        return c <= int(hi) if op == "..=" else c < int(hi)
    return op == ".."


def _condition_accepts(text, c):
    """float branch condition as generated: `plural_count == v`, `RangeBounds::contains(&(range), &plural_count)`, joined by ||"""
    parts = [x.strip() for x in text.split("||")]
    res = []
    for p in parts:
        t = p.replace(" ", "")
        m = re.match(r"^plural_count==(-?\d+)$", t)
        if m:
            res.append(c == int(m.group(1)))
            continue
        m = re.match(r"^core::ops::RangeBounds::contains\(&\((.*)\),&plural_count\)$", t)
        if m:
            a = _pattern_accepts(m.group(1), c)
            if a is None:
                return None
            res.append(a)
            continue
        return None
    return any(res)


def r1_semantics(ctx):
    r = Rule("C04.R1", "bound semantics agree: do_match vs generated patterns vs float conditions",
             "`renders the first branch that contains the count`: `a..b` excludes b, `a..=b` includes it, an open side is unbounded; "
             "the parse-time matcher (literal counts through foreign keys), the generated integer patterns and the generated float "
             "conditions must all mean the same set of counts", floor=27)
    from rules import absint
    from rules.absint import AEval, C, CF, I, L
    ast = ctx.ast
    pf = absint.file_funcs(ast, PR, "Range")
    mf = absint.file_funcs(ast, MR)
    dm = ast.fn(PR, "do_match", impl_self="Range")
    ts = ast.fn(MR, "range_to_token_stream")
    cd = ast.fn(MR, "range_to_condition")
    for nm, f in (("Range::do_match", dm), ("range_to_token_stream", ts), ("range_to_condition", cd)):
        if f is None:
            r.missing(nm)
    if dm is None or ts is None or cd is None:
        return r

    def Bounds(start, end):
        return CF("Bounds", start=start, end=end)
    # every shape of range, with bounds 5 and 7; counts on each side of each bound: all orderings a comparison can see
    shapes = {
        "Exact(5)": C("Exact", I(5)),
        "5..": Bounds(C("Some", I(5)), C("Unbounded")),
        "5..=7": Bounds(C("Some", I(5)), C("Included", I(7))),
        "5..7": Bounds(C("Some", I(5)), C("Excluded", I(7))),
        "..=7": Bounds(C("None"), C("Included", I(7))),
        "..7": Bounds(C("None"), C("Excluded", I(7))),
        "Fallback": C("Fallback"),
        "5 | 7..": C("Multiple", L(C("Exact", I(5)), Bounds(C("Some", I(7)), C("Unbounded")))),
        "..=5 | 7": C("Multiple", L(Bounds(C("None"), C("Included", I(5))), C("Exact", I(7)))),
    }
    counts = [4, 5, 6, 7, 8]
    for label, rng in shapes.items():
        want = [_spec_match(rng, c) for c in counts]
        got = []
        for c in counts:
            v = AEval(funcs=pf).run_fn(dm, [rng, I(c)])
            got.append(v[1] if not isinstance(v, str) and v[0] == "bool" else v)
        if got == want:
            r.inst("do_match " + label, "accepts %s of %s" % ([c for c, w in zip(counts, want) if w], counts))
        else:
            r.viol("R1:do_match#" + label, "parse-time matcher on `%s`: accepts %s of counts %s, the documented semantics accept %s" % (label, [c if g is True else g for c, g in zip(counts, got) if g is not False], counts, [c for c, w in zip(counts, want) if w]), file=dm.file, line=dm.line)
        pv = AEval(funcs=mf).run_fn(ts, [rng])
        ptxt = pv[1] if not isinstance(pv, str) and pv[0] == "tok" else None
        acc = [_pattern_accepts(ptxt, c) if ptxt is not None else None for c in counts]
        if ptxt is not None and acc == want:
            r.inst("pattern for " + label, "`%s`" % ptxt)
        else:
            r.viol("R1:range_to_token_stream#" + label, "generated integer pattern for `%s` is `%s`: accepts %s of %s, must accept %s" % (label, ptxt if ptxt is not None else pv, [c for c, a in zip(counts, acc) if a], counts, [c for c, w in zip(counts, want) if w]), file=ts.file, line=ts.line)
        cv = AEval(funcs=mf).run_fn(cd, [rng])
        if not isinstance(cv, str) and cv[0] == "ctor" and cv[1] == "None":
            ok = all(want)
            ctxt = "(no condition: always)"
            acc = [True] * len(counts)
        elif not isinstance(cv, str) and cv[0] == "ctor" and cv[1] == "Some" and cv[2][0][0] == "tok":
            ctxt = cv[2][0][1]
            acc = [_condition_accepts(ctxt, c) for c in counts]
            ok = acc == want
        else:
            ctxt, acc, ok = str(cv), [], False
        if ok:
            r.inst("float condition for " + label, "`%s`" % ctxt)
        else:
            r.viol("R1:range_to_condition#" + label, "generated float condition for `%s` is `%s`: accepts %s of %s, must accept %s" % (label, ctxt, [c for c, a in zip(counts, acc) if a], counts, [c for c, w in zip(counts, want) if w]), file=cd.file, line=cd.line)
    return r


BAD_ADAPTORS = {"rev", "skip", "take", "filter", "step_by", "skip_while", "take_while", "rposition", "rfind", "last", "nth", "max_by", "min_by", "max_by_key", "min_by_key"}


def r2_first_match(ctx):
    r = Rule("C04.R2", "first declared branch wins (forward scan, forward generation)",
             "branches may overlap; rendering any branch but the first containing the count contradicts the declaration order",
             floor=5)
    ast = ctx.ast
    fn = ast.fn(PR, "find_value")
    if fn is None:
        r.missing("find_value")
    else:
        # abstract evaluation (rules/absint.py): overlapping branches, every position of the first match
        from rules import absint
        from rules.absint import AEval, C, CF, I, L, A, T
        pf = absint.file_funcs(ast, PR, "Range")
        b57 = CF("Bounds", start=C("Some", I(5)), end=C("Included", I(7)))
        branches = L(T(C("Exact", I(5)), A("v0")), T(b57, A("v1")), T(C("Exact", I(6)), A("v2")), T(C("Fallback"), A("v3")))
        want = {5: "v0.populate", 6: "v1.populate", 7: "v1.populate", 9: "v3.populate"}
        nargs = len(fn.node["sig"]["inputs"])
        got = {}
        for c in want:
            v = AEval(funcs=pf).run_fn(fn, [branches, I(c)] + [A("arg%d" % k) for k in range(nargs - 2)])
            got[c] = v[1] if not isinstance(v, str) and v[0] == "atom" else (absint.fmt(v) if not isinstance(v, str) else v)
        nomatch = AEval(funcs=pf).run_fn(fn, [L(T(C("Exact", I(5)), A("v0"))), I(6)] + [A("arg%d" % k) for k in range(nargs - 2)])
        nm_ok = not isinstance(nomatch, str) and nomatch[0] == "ctor" and nomatch[1] == "Err"
        if got == want and nm_ok:
            r.inst("find_value", "the first branch (in declaration order) whose range contains the count is populated; no match -> Err")
        else:
            r.viol("R2:find_value", "parse-time selection over [5, 5..=7, 6, _] gives %s (expected %s); without a matching branch: %s" % (got, want, nomatch if isinstance(nomatch, str) else absint.fmt(nomatch)), file=fn.file, line=fn.line)
    # the branches reach the matcher as declared: every (range, value) pair of the file, in file order, a repeated range included
    # (the second one is unreachable, not a replacement) - deserialize_all_pairs evaluated on a sequence with repeats
    fn = next((f for f in ast.fns if f.file.endswith(PR) and f.name == "deserialize_all_pairs" and f.body is not None and not f.is_test()), None)
    if fn is None:
        r.missing("ParseRanges::deserialize_all_pairs")
    else:
        from rules import absint
        from rules.absint import AEval, C, CF, I, L, A, T, UNIT
        b15 = CF("Bounds", start=C("Some", I(1)), end=C("Excluded", I(5)))
        pairs = [T(C("Exact", I(1)), A("a")), T(b15, A("b")), T(b15, A("c")), T(C("Exact", I(1)), A("d")), T(C("Exact", I(0)), A("e")), T(C("Fallback"), A("f"))]
        ev = AEval(funcs=absint.file_funcs(ast, PR, "Range"))
        absint.set_program(ast)
        ev.mut_builtins["next_element_seed"] = lambda rv, a: (L(*rv[1][1:]), C("Ok", C("Some", rv[1][0]))) if rv[0] == "list" and rv[1] else (rv, C("Ok", C("None")))
        pn = fn.params()
        try:
            v = ev.run_fn(fn, [L(*pairs), L(), A("seed")][:len(pn)])
        except absint.Unknown as u:
            v = "UNKNOWN: %s" % u
        after = (getattr(ev, "last_env", None) or {}).get(pn[1] if len(pn) > 1 else "ranges")
        if isinstance(v, str):
            r.viol("R2:deserialize_all_pairs#undecided", "cannot be interpreted on the current code (%s): not decided (fail closed)" % v[:200], file=fn.file, line=fn.line)
        elif v == C("Ok", UNIT) and after == L(*pairs):
            r.inst("deserialize_all_pairs", "6 declared branches incl. a repeated range and a repeated exact value: all kept, in file order")
        else:
            r.viol("R2:deserialize_all_pairs#declared", "the declared branches [1 => a, 1..5 => b, 1..5 => c, 1 => d, 0 => e, _ => f] are read as %s (result %s)" % (absint.fmt(after)[:300] if after else after, absint.fmt(v)[:80]), file=fn.file, line=fn.line)
    for name in ("to_tokens_integers", "to_tokens_integers_string", "to_tokens_floats", "to_tokens_floats_string"):
        fn = ast.fn(MR, name)
        if fn is None:
            r.missing(name)
            continue
        chains = []
        p0 = fn.params()[0] if fn.params() else "ranges"
        for mc in find_all(fn.body, "MethodCall"):
            base, ch = method_chain(mc)
            ms = [m for m, _, _ in ch]
            if show(base) == p0 and ms and ms[0] == "iter" and ("map" in ms or "enumerate" in ms) and (not chains or len(ms) > len(chains[0][1])):
                chains = [(show(base), ms)]
        if len(chains) < 1:
            r.viol("R2:%s#iter" % name, "cannot find the iteration that turns the branches into arms (`%s.iter()..map(..)`)" % p0, file=fn.file, line=fn.line)
            continue
        base, meths = chains[0]
        bad = [m for m in meths if m in BAD_ADAPTORS]
        if base != p0 or meths[0] != "iter" or bad:
            r.viol("R2:%s#order" % name, "branches are generated from `%s.%s` (must be ranges.iter() with no reordering/filtering adaptor)" % (base, ".".join(meths)), file=fn.file, line=fn.line)
        else:
            r.inst(name, "ranges.%s -> arms in declaration order" % ".".join(meths))
        if not name.endswith("_string"):
            # the view closure is `move ||` and reads the count inside: the count is cloned in front of it, so that another range / plural or
            # a `{{ count }}` next to this one can still use it (`$t(apples) and $t(pears)` would not compile otherwise)
            qm = [tok_text(q["tokens"]) for q in xquotes(fn.body) if "move ||" in tok_text(q["tokens"])]
            if not qm:
                r.viol("R2:%s#closure" % name, "the template with the `move ||` closure was not found", file=fn.file, line=fn.line)
            elif not all("let#count_key=core::clone::Clone::clone(&#count_key);" in t_.split("move ||")[0].replace(" ", "") or "let#count_key=Clone::clone(&#count_key);" in t_.split("move ||")[0].replace(" ", "") for t_ in qm):
                r.viol("R2:%s#count-moved" % name, "the count is not cloned in front of the `move ||` closure that reads it: a second use of the same count next to this range does not compile", file=fn.file, line=fn.line)
            else:
                r.inst(name + "#count-cloned", "let #count_key = Clone::clone(&#count_key); before the move closure")
        if "floats" in name:
            # first `if`, the rest chained with else, in iterator order
            qs = [tok_text(q["tokens"]) for q in xquotes(fn.body)]
            if "#first #(else #ifs)*" not in qs:
                r.viol("R2:%s#chain" % name, "float branches are not emitted as `first else second else ...`", file=fn.file, line=fn.line)
            else:
                r.inst(name + "#chain", "#first #(else #ifs)*")
    return r


def r3_ends(ctx):
    r = Rule("C04.R3", "exclusive/inclusive end handling in the parser",
             "`a..b` must exclude b and `a..=b` include it for every numeric type; an off-by-one here changes which counts a branch accepts",
             floor=5)
    ast = ctx.ast
    # macro_rules tables impl_num / impl_floats
    txt = ctx.read(PR)
    m_int = re.search(r"macro_rules!\s*impl_num\s*\{(.*?)\n    macro_rules!", txt, re.S)
    m_flt = re.search(r"macro_rules!\s*impl_floats\s*\{(.*?)\n    impl_num!", txt, re.S)
    mods = [im for (p, mods_, im) in ast.item_macros if p.endswith("parse_locales/ranges.rs") and im.get("ident") in ("impl_num", "impl_floats")]
    found = {}
    for im in mods:
        t = flat(im.get("text", ""))
        mm = re.search(r"fnrange_end_bound\(self\)->Option<Bound<Self>>\{(.*?)\}", t)
        found[im["ident"]] = mm.group(1) if mm else None
    want = {"impl_num": "self.checked_sub(1).map(Bound::Included)", "impl_floats": "Some(Bound::Excluded(self))"}
    for k, w in want.items():
        if found.get(k) != w:
            r.viol("R3:%s#range_end_bound" % k, "exclusive end conversion is `%s`, expected `%s`" % (found.get(k), w), file=PR)
        else:
            r.inst(k + "#range_end_bound", w)
    # which types use which macro
    calls = {}
    for (p, mods_, im) in ast.item_macros:
        if p.endswith("parse_locales/ranges.rs") and im.get("path") in ("impl_num", "impl_floats") and not im.get("ident"):
            calls[im["path"]] = sorted(re.findall(r"\(\s*(\w+)\s*,\s*(\w+)\s*\)", im.get("text", "")))
    wi = sorted([("i8", "I8"), ("i16", "I16"), ("i32", "I32"), ("i64", "I64"), ("u8", "U8"), ("u16", "U16"), ("u32", "U32"), ("u64", "U64")])
    wf = sorted([("f32", "F32"), ("f64", "F64")])
    if calls.get("impl_num") != wi or calls.get("impl_floats") != wf:
        r.viol("R3:impl-table", "numeric type table changed: ints %s floats %s" % (calls.get("impl_num"), calls.get("impl_floats")), file=PR)
    else:
        r.inst("impl_num!/impl_floats!", "8 integer types -> integer rule, f32/f64 -> float rule, TYPE tags match the type names")
    fn = ast.fn(PR, "new", impl_self="Range")
    if fn is None:
        r.missing("Range::new")
        return r
    # Range::new over one representative per production of the range grammar and per ordering of the two bounds, with
    # the integer rule (`a..b` = a..=b-1) and the float rule (`a..b` excludes b) for the exclusive end (rules/absint.py)
    from rules import absint
    from rules.absint import AEval, C, CF, I, L
    pf = absint.file_funcs(ast, PR, "Range")

    def B_(start, end):
        return CF("Bounds", start=(C("Some", I(start)) if start is not None else C("None")), end=end)

    def ok(v):
        return C("Ok", v)
    INC, EXC, UNB = (lambda n: C("Included", I(n))), (lambda n: C("Excluded", I(n))), C("Unbounded")
    for mode, endb, excl in (("int", (lambda rv, a: C("Some", C("Included", I(rv[1] - 1)))), (lambda n: INC(n - 1))), ("float", (lambda rv, a: C("Some", C("Excluded", rv))), EXC)):
        cases = {
            "5": ok(C("Exact", I(5))), "5..": ok(B_(5, UNB)), "5..7": ok(B_(5, excl(7))), "5..=7": ok(B_(5, INC(7))), "..7": ok(B_(None, excl(7))), "..=7": ok(B_(None, INC(7))),
            "_": ok(C("Fallback")), "..": ok(C("Fallback")), " 5 ..= 7 ": ok(B_(5, INC(7))), "5 .. = 7": ok(B_(5, INC(7))),
            "5|7..": ok(C("Multiple", L(C("Exact", I(5)), B_(7, UNB)))), " 5 | 7..": ok(C("Multiple", L(C("Exact", I(5)), B_(7, UNB)))), "5|_": ok(C("Fallback")),
            "7..=7": ok(B_(7, INC(7))), "7..8": ok(B_(7, excl(8))),
            "7..5": "ImpossibleRange", "7..7": "ImpossibleRange", "7..=6": "ImpossibleRange", "a": "RangeParse", "5..b": "RangeParse", "5|b": "RangeParse",
        }
        bad = []
        for text, want in cases.items():
            v = AEval(funcs=pf, builtins={"range_end_bound": endb}).run_fn(fn, [("str", text)])
            if isinstance(want, str):
                good = not isinstance(v, str) and v[0] == "ctor" and v[1] == "Err" and v[2] and v[2][0][0] == "ctor" and v[2][0][1] == want
            else:
                good = v == want
            if not good:
                bad.append((text, absint.fmt(v), want if isinstance(want, str) else absint.fmt(want)))
        if not bad:
            r.inst("Range::new (%s rule)" % mode, "%d range spellings parse to the documented range / error" % len(cases))
        else:
            for text, got, want in bad[:5]:
                r.viol("R3:Range::new#%s:%s" % (mode, text.strip()), "`%s` (%s rule for the exclusive end) parses to %s, documented: %s" % (text, mode, got, want), file=fn.file, line=fn.line)
    return r


def r4_validation(ctx, prog):
    r = Rule("C04.R4", "range validation dominates acceptance",
             "a misplaced or duplicate fallback, a float range without fallback or an empty range would make a later branch "
             "unreachable or leave counts without any branch", floor=5)
    b = prog.body("<leptos_i18n_parser::parse_locales::parsed_value::ParsedValueSeed<'_> as serde::de::Visitor<'de>>::visit_seq")
    if b is None:
        r.missing("ParsedValueSeed::visit_seq")
        return r
    oks = M.ok_return_blocks(b)
    if len(oks) != 1:
        r.viol("R4:visit_seq#ok", "expected one Ok(ParsedValue::Ranges) return, found %d" % len(oks), file=b.file)
        return r
    ok = oks[0]
    chk = M.call_blocks(b, r"ranges::Ranges::check_deserialization$")
    if not chk or not M.must_pass(b, chk, [ok]):
        r.viol("R4:visit_seq#check_deserialization", "Ok(Ranges) reachable without check_deserialization()", file=b.file, line=b.line)
    else:
        r.inst("visit_seq#check_deserialization", "dominates Ok")
    for variant in ("InvalidFallback", "MultipleFallbacks", "MissingFallback", "NestedRanges"):
        errs = M.agg_blocks(b, "error::Error", variant)
        if not errs:
            r.viol("R4:visit_seq#" + variant, "Error::%s is no longer produced by visit_seq" % variant, file=b.file, line=b.line)
            continue
        fine = True
        for e in errs:
            if b.paths_avoiding(e, [ok], []):
                fine = False
                r.viol("R4:visit_seq#%s-falls-through" % variant, "the %s branch can reach Ok" % variant, file=b.file)
            if not M.alternatives(b, e, ok):
                fine = False
                r.viol("R4:visit_seq#%s-not-dominating" % variant, "the test that yields %s and Ok(Ranges) are not the two outcomes of one decision on every path" % variant, file=b.file)
        if fine:
            r.inst("visit_seq#" + variant, "its test dominates Ok(Ranges); the error branch cannot reach Ok")
    # the decision itself, evaluated (rules/absint.py) over (nested?, invalid fallback, number of fallbacks, type needs a fallback)
    fn = ctx.ast.fn(PV, "visit_seq", impl_self="ParsedValueSeed")
    if fn is not None:
        from rules import absint
        from rules.absint import AEval, A, B, C, CF, I, T
        bad = []
        n = 0
        for nested in (False, True):
            for inv in (False, True):
                for cnt in (0, 1, 2, 3):
                    for shf in (False, True):
                        seen = {}

                        def from_seq(a, seen=seen):
                            seen["seed"] = a[1]
                            return C("Ok", A("ranges"))
                        ev = AEval(funcs={}, builtins={"check_deserialization": lambda rv, a, inv=inv, cnt=cnt, shf=shf: T(B(inv), I(cnt), B(shf)), "get_type": lambda rv, a: A("range-type")})
                        ev.path_builtins = {"Ranges::from_serde_seq": from_seq}
                        import re as _re
                        ev.opaque_paths = _re.compile(r"Error::custom$")
                        seed = CF("ParsedValueSeed", top_locale_name=A("locale"), in_range=B(nested), key_path=A("key_path"), key=A("key"), foreign_keys_paths=A("fkp"))
                        got = ev.run_fn(fn, [seed, A("seq")])
                        n += 1
                        if isinstance(got, str):
                            bad.append("cannot be evaluated: %s" % got)
                            break
                        txt = absint.fmt(got)
                        applicable = (["NestedRanges"] if nested else []) or ([x for x, c in (("InvalidFallback", inv), ("MultipleFallbacks", cnt > 1), ("MissingFallback", cnt == 0 and shf)) if c])
                        if applicable:
                            if not (got[0] == "ctor" and got[1] == "Err" and any(x in txt for x in applicable)):
                                bad.append("nested=%s invalid_fallback=%s fallbacks=%d needs_fallback=%s gives %s, expected an error among %s" % (nested, inv, cnt, shf, txt[:80], applicable))
                        elif got != C("Ok", C("Ranges", A("ranges"))):
                            bad.append("nested=%s invalid_fallback=%s fallbacks=%d needs_fallback=%s gives %s, expected Ok(Ranges)" % (nested, inv, cnt, shf, txt[:80]))
                        if not nested and "seed" in seen and absint.fields_of(seen["seed"]).get("in_range") != B(True):
                            bad.append("the branches are parsed with in_range = %s: a range nested in a branch would not be detected" % absint.fmt(absint.fields_of(seen["seed"]).get("in_range", A("?"))))
        if bad:
            r.viol("R4:visit_seq#conditions", "the acceptance decision of a range changed: %s" % "; ".join(sorted(set(bad))[:3]), file=fn.file, line=fn.line)
        else:
            r.inst("visit_seq#conditions", "%d cases (nested, invalid fallback, 0-3 fallbacks, type needs a fallback): rejected with the matching error exactly when one of the conditions holds, else Ok(Ranges); branches parsed with in_range set" % n)
    b2 = prog.body("ranges::Ranges::from_serde_seq")
    if b2 is None:
        r.missing("Ranges::from_serde_seq")
    else:
        oks2 = M.ok_return_blocks(b2)
        em = M.call_blocks(b2, r"ranges::Ranges::is_empty$")
        errs = [i for i, t in b2.calls() if any((op_const(a) or {}).get("fn", "").endswith("Error::EmptyRange") for a in t["args"])] + M.agg_blocks(b2, "error::Error", "EmptyRange")
        if not oks2 or not em or not M.must_pass(b2, em, oks2) or not errs:
            r.viol("R4:from_serde_seq#non-empty", "Ok(ranges) reachable without the non-empty test (a typed range without branches would be accepted)", file=b2.file, line=b2.line)
        else:
            rsw = M.result_switch(b2, em[0])
            if rsw and any(M.exclusive_reach(b2, rsw[1], e, rsw[2]) for e in errs) and not M.exclusive_reach(b2, rsw[1], oks2[0], rsw[2]):
                r.inst("from_serde_seq#non-empty", "is_empty() dominates Ok; true side returns EmptyRange")
            else:
                r.viol("R4:from_serde_seq#non-empty-polarity", "is_empty() is tested but its true side does not end in EmptyRange", file=b2.file, line=b2.line)
    # check_de_inner semantic pieces
    fn = ctx.ast.fn(PR, "check_de_inner")
    if fn is None:
        r.missing("check_de_inner")
    else:
        from rules import absint
        from rules.absint import AEval, C, CF, I, L, A, T
        pf = absint.file_funcs(ctx.ast, PR, "Ranges")
        FB, EX = C("Fallback"), C("Exact", I(1))
        MFB = C("Multiple", L(C("Exact", I(2)), C("Fallback")))
        cases = {"[1, _]": ([EX, FB], False, 1), "[_, 1]": ([FB, EX], True, 1), "[1]": ([EX], False, 0), "[_, _]": ([FB, FB], True, 2), "[1, 2|_, 3]": ([EX, MFB, EX], True, 0),
                 "[1, 2|_]": ([EX, MFB], False, 0), "[1, _, 1, _]": ([EX, FB, EX, FB], True, 2), "[_]": ([FB], False, 1)}
        bad = []
        for label, (rs, inv, cnt) in cases.items():
            v = AEval(funcs=pf, builtins={"should_have_fallback": lambda rv, a: A("T::TYPE.should_have_fallback()")}).run_fn(fn, [L(*[T(x, A("v")) for x in rs])])
            want = T(absint.B(inv), I(cnt), A("T::TYPE.should_have_fallback()"))
            if v != want:
                bad.append((label, absint.fmt(v), absint.fmt(want)))
        if not bad:
            r.inst("check_de_inner", "%d branch lists: (a fallback before the last branch?, number of fallback branches, type needs a fallback?)" % len(cases))
            r.inst("check_de_inner#should_have_fallback", "T::TYPE.should_have_fallback()")
        else:
            for label, got, want in bad[:4]:
                r.viol("R4:check_de_inner#" + label, "for branches %s the fallback analysis yields %s, expected %s" % (label, got, want), file=fn.file, line=fn.line)
    # a count written as a *list* (`["1.0", "_"]`, the list form of `1.0 | _`): a list that holds the fallback is the fallback - so that the
    # position / multiplicity analysis above sees it, and the generated conditions never meet a fallback inside an alternative
    vs = [f for f in ctx.ast.fns_named(PR, "visit_seq") if f.impl_self and f.impl_self.startswith("RangeSeed<") and f.body is not None]
    if not vs:
        r.missing("RangeSeed::visit_seq")
    else:
        from rules import absint as _a4
        from rules.absint import AEval as _AE4, C as _C4, CF as _CF4, I as _I4, L as _L4, A as _A4, T as _T4

        def next_elem(rv, a):
            items = _a4.fields_of(rv)["items"][1]
            if not items:
                return rv, _C4("Ok", _C4("None"))
            return _CF4("Seq", items=_L4(*items[1:])), _C4("Ok", _C4("Some", items[0]))
        E1, E3, FBk = _C4("Exact", _I4(1)), _C4("Exact", _I4(3)), _C4("Fallback")
        seqs = {"[1, _]": ([E1, FBk], "fallback"), "[_, 1]": ([FBk, E1], "fallback"), "[1, 3]": ([E1, E3], "multi"), "[1]": ([E1], "single"), "[]": ([], "fallback"), "[1, 3, _]": ([E1, E3, FBk], "fallback")}
        badv = None
        try:
            for label, (items, kind) in seqs.items():
                ev = _AE4(funcs=_a4.file_funcs(ctx.ast, PR, "Range"))
                ev.mut_builtins = {"next_element_seed": next_elem}
                got = ev.run_fn(vs[0], [_A4("seed"), _CF4("Seq", items=_L4(*items))])
                if isinstance(got, str):
                    raise _a4.Unknown(got)
                val = got[2][0] if got[0] == "ctor" and got[1] == "Ok" and got[2] else None
                okv = (kind == "fallback" and val == FBk) or (kind == "single" and val == E1) or \
                    (kind == "multi" and val is not None and val[0] == "ctor" and val[1] == "Multiple" and sorted(map(repr, val[2][0][1])) == sorted(map(repr, items)))
                if not okv and badv is None:
                    badv = "the count list %s is read as %s, expected %s" % (label, _a4.fmt(got)[:120], {"fallback": "the fallback", "single": "that one range", "multi": "the alternatives"}[kind])
            if badv:
                r.viol("R4:RangeSeed::visit_seq#list-with-fallback", badv + " - a `_` kept inside an alternative escapes the `fallback must be last` check and is dropped by the generated float conditions", file=vs[0].file, line=vs[0].line)
            else:
                r.inst("RangeSeed::visit_seq", "%d count lists: one element -> itself, several -> alternatives, any list holding `_` (or empty) -> the fallback" % len(seqs))
        except _a4.Unknown as u:
            r.viol("R4:RangeSeed::visit_seq#undecided", "cannot be interpreted on the current code (%s): not decided (fail closed)" % str(u)[:200], file=vs[0].file, line=vs[0].line)
    fn = ctx.ast.fn(PR, "should_have_fallback")
    if fn is not None:
        t = flatp(show(fn.body))
        if t not in ("{matches!self,RangeType::F64|RangeType::F32}", "{matches!self,RangeType::F32|RangeType::F64}"):
            r.viol("R4:should_have_fallback", "float types must (and only they) require a fallback: %s" % t, file=fn.file, line=fn.line)
        else:
            r.inst("should_have_fallback", "F32 | F64")
    return r


def r5_conversions(ctx, prog):
    r = Rule("C04.R5", "literal count conversion is lossless (TryFrom) before selection",
             "an `as` cast would wrap a literal count (300 as u8 = 44) and select a different branch than the run-time path", floor=2)
    b = prog.body("ranges::Ranges::populate_with_count_arg")
    if b is None:
        r.missing("populate_with_count_arg")
        return r
    casts = []
    for i, j, s in b.assigns():
        rv = s["rv"]
        if rv["k"] == "Cast" and rv["cast"] in ("IntToInt", "FloatToInt", "IntToFloat", "FloatToFloat"):
            src = op_place(rv["ops"][0])
            sty = b.local_ty(src["l"]) if src and not src["p"] else "?"
            casts.append((sty, rv["ty"], s["line"]))
    bad = [c for c in casts if not (c[0] == "f64" and c[1] == "f32")]
    r.inst("populate_with_count_arg#casts", "numeric casts: %s" % casts)
    for c in bad:
        r.viol("R5:populate_with_count_arg#cast", "lossy `as` cast %s -> %s of the literal count (line %d)" % c, file=b.file, line=c[2])
    tf = M.call_blocks(b, r"populate_with_count_arg::try_from$")
    fv = M.call_blocks(b, r"populate_with_count_arg::find_value$")
    r.inst("populate_with_count_arg#try_from", "%d try_from conversions feeding %d find_value calls" % (len(tf), len(fv)))
    # every integer conversion of the literal count is fallible (TryFrom / TryInto), in this function and in the helpers nested in it:
    # no integer `as` cast anywhere in the family (checked above for the body itself, here for the nested helpers)
    fam_ = [bb for n2, bb in prog.bodies.items() if "::populate_with_count_arg::" in n2 and "ranges::" in n2]
    conv = 0
    for bb in fam_ + [b]:
        conv += len(M.call_blocks(bb, r"TryFrom<.*>>::try_from$|std::convert::TryFrom::try_from$|TryInto<.*>>::try_into$|std::convert::TryInto::try_into$"))
        for i2, j2, s2 in bb.assigns():
            rv2 = s2["rv"]
            if bb is not b and rv2["k"] == "Cast" and rv2["cast"] in ("IntToInt", "FloatToInt", "IntToFloat"):
                r.viol("R5:populate_with_count_arg#cast", "lossy `as` cast (%s -> %s) of the literal count in %s (line %d)" % (rv2["cast"], rv2["ty"], bb.name.split("::")[-1], s2["line"]), file=bb.file, line=s2["line"])
    if conv < 1:
        r.viol("R5:populate_with_count_arg#try_from", "no fallible integer conversion (TryFrom / TryInto) is left between the literal count and the typed branches", file=b.file, line=b.line)
    number_forms(prog, r, "R5")
    return r


def number_forms(prog, r, rid):
    """a bound / exact value written as a JSON or YAML *number* reaches its numeric type through RangeNumber::from_u64 / from_i64 /
    from_f64 (which of them depends on the file format's number model): MIR return summaries of all 30 impls - an integer type
    takes exactly the values TryFrom accepts (one direct conversion of the input), a float type takes every number"""
    import mirsum
    seen = {}
    for n, bb in prog.bodies.items():
        m = re.search(r"RangeNumber for (\w+)>::(from_u64|from_i64|from_f64)$", n)
        if m:
            t = mirsum.summary(prog, bb, depth=1, args=[("cap", "v")])
            seen[(m.group(1), m.group(2))] = (mirsum.fmt(t) if t is not None else "a branching computation", bb)
    n_ok = 0
    for ty in ("i8", "i16", "i32", "i64", "u8", "u16", "u32", "u64", "f32", "f64"):
        for f in ("from_u64", "from_i64", "from_f64"):
            if (ty, f) not in seen:
                r.missing("<%s as RangeNumber>::%s" % (ty, f))
                continue
            got, bb = seen[(ty, f)]
            if ty.startswith("f"):
                ok = got == "Option#Some(v)"
                w = "Some(v as %s): every number written in the file is a valid float bound" % ty
            elif f == "from_f64":
                ok = got == "Option#None()"
                w = "None: a fractional number is not an integer bound"
            else:
                ok = re.match(r"^Result::ok\(((?:TryFrom)?::try_from|TryInto::try_into)\(v\)\)$", got) is not None
                w = "%s::try_from(v).ok(): exactly the values the type can hold" % ty
            if ok:
                n_ok += 1
            else:
                r.viol("%s:RangeNumber::%s#%s" % (rid, f, ty), "<%s as RangeNumber>::%s is `%s`, expected %s" % (ty, f, got, w), file=bb.file, line=bb.line)
    if n_ok == 30:
        r.inst("RangeNumber::from_u64/from_i64/from_f64", "30 impls: integers through TryFrom of the number as written (whatever 64-bit form the file format hands over), floats accept every number")


def r6_populate(ctx):
    r = Rule("C04.R6", "selected branch keeps all arguments; a variable count renames the count key",
             "`{{ count }}` inside the branch must show the literal and other arguments must still be substituted", floor=3)
    ast = ctx.ast
    fn = ast.fn(PR, "populate", impl_self="Ranges")
    if fn is None:
        r.missing("Ranges::populate")
    else:
        # decided by the evaluation of ParsedValue::populate over ranges (rules/fkeval.py, C06.R0): the argument named like the range's own
        # count variable fixes the branch (literal) or renames it (variable); without it the range keeps its count key; every other
        # argument is substituted in every branch
        from rules import c06 as _c06
        k0_, ok0_, why0_ = _c06.r0_substitution(ctx)
        bad0_ = [v_ for v_ in k0_.violations if re.search(r"populate#range|populate#.*range", v_.key)]
        if not ok0_:
            r.viol("R6:Ranges::populate#undecided", "the substitution into ranges cannot be interpreted on the current code (%s): not decided (fail closed)" % str(why0_)[:200], file=fn.file, line=fn.line)
        elif bad0_:
            for v_ in bad0_[:3]:
                r.viol("R6:" + v_.key.split(":", 1)[1], v_.msg, file=v_.file, line=v_.line)
        else:
            r.inst("Ranges::populate", "count argument (by the range's own count name) present -> branch fixed / count renamed, else own count key kept (evaluated, shared with C06.R0)")
    fn = ast.fn(PR, "populate_with_count_arg", impl_self="Ranges")
    if fn is not None:
        t = flat(show(fn.body))
        for k, frag in {"bloc": "ParsedValue::Bloc(values)=>{letnew_key=Plurals::find_variable(values,locale,key_path,foreign_key)?;self.populate_with_new_key(new_key,args,foreign_key,locale,key_path)}",
                        "variable": "ParsedValue::Variable{key:key,..}=>{self.populate_with_new_key(key.clone(),args,foreign_key,locale,key_path)}"}.items():
            if has(t, frag):
                r.inst("populate_with_count_arg#" + k, "variable count renames the count key")
            else:
                r.viol("R6:populate_with_count_arg#" + k, "a `{{ var }}` count no longer renames the count variable", file=fn.file, line=fn.line)
    if fn is not None:
        # a literal count: evaluated (rules/absint.py) for every numeric type x literal kind x count - the first branch containing
        # the count is populated with exactly the arguments of the reference (the count stays what the file says)
        from rules import absint as _ai
        from rules.absint import AEval as _AE, C as _C, CF as _CF, A as _A, T as _T, L as _L, I as _I
        _ai.set_program(ast)
        _S = lambda x: ("str", x)  # noqa: E731
        n_ok = 0
        bad = None
        for ty in TYPES:
            for kind in ("Float", "Unsigned", "Signed"):
                for cnt, wantv in ((1, "v1"), (3, "v2"), (9, "v3")) + (((16777217, "v3"),) if ty in ("F32", "F64", "I32", "I64", "U32", "U64") else ()):
                    argsv = _L(_T(_S("var_count"), _C("Literal", _C(kind, _I(cnt)))), _T(_S("var_x"), _A("X")))
                    log = []
                    ev = _AE(funcs=_ai.file_funcs(ast, PR, "Range"))

                    def pop(rv, a, log=log):
                        log.append((rv, a[0]))
                        return _C("Ok", _A("populated"))
                    ev.builtins["populate"] = pop
                    ev.path_builtins["TryFrom::try_from"] = lambda a: _C("Ok", a[0])
                    br = _L(_T(_C("Exact", _I(1)), _A("v1")), _T(_CF("Bounds", start=_C("Some", _I(2)), end=_C("Included", _I(4))), _A("v2")), _T(_C("Fallback"), _A("v3")))
                    try:
                        v = ev.run_fn(fn, [_CF("Ranges", inner=_C(ty, br), count_key=_A("ck")), _C("Literal", _C(kind, _I(cnt))), argsv, _A("fk"), _A("locale"), _A("kp")])
                    except _ai.Unknown as u:
                        v = "UNKNOWN: %s" % u
                    if isinstance(v, str):
                        bad = bad or ("undecided", "%s range, %s literal: %s" % (ty, kind, v[:200]))
                        continue
                    n_ok += 1
                    compatible = (kind == "Float") == ty.startswith("F")
                    if compatible:
                        if not (v == _C("Ok", _A("populated")) and len(log) == 1 and log[0][0] == _A(wantv) and log[0][1][0] == "list" and sorted(log[0][1][1]) == sorted(argsv[1])):
                            bad = bad or ("args", "a %s range with the literal count %d (%s) populates %s, expected branch %s with the reference's own arguments unchanged" % (
                                ty, cnt, kind, [(_ai.fmt(a), "own arguments" if b[0] == "list" and sorted(b[1]) == sorted(argsv[1]) else _ai.fmt(b)[:160]) for a, b in log], wantv))
                    elif not (v[0] == "ctor" and v[1] == "Err" and not log):
                        bad = bad or ("type", "a %s range accepts a %s literal count" % (ty, kind))
        if bad:
            r.viol("R6:populate_with_count_arg#literal-" + bad[0], bad[1], file=fn.file, line=fn.line)
        else:
            r.inst("populate_with_count_arg#literal", "%d evaluations (10 types x 3 literal kinds x counts 1, 3, 9 and 2^24+1, which an f32 cannot hold): first containing branch, the reference's arguments unchanged; a float literal only for float ranges" % n_ok)
    fns = [f for f in ast.fns_named(PR, "inner") if f.qual.endswith("Ranges::populate_with_new_key::inner")]
    outer = ast.fn(PR, "populate_with_new_key", impl_self="Ranges")
    fn = fns[0] if fns else None
    if fn is None or outer is None:
        r.missing("Ranges::populate_with_new_key(::inner)")
    else:
        from rules import absint
        from rules.absint import AEval, C, CF, A, T, L, I
        br = L(T(C("Exact", I(1)), A("v1")), T(C("Exact", I(2)), A("v2")), T(C("Fallback"), A("v3")))
        v = AEval(funcs={}).run_fn(fn, [br, A("args"), A("fk"), A("locale"), A("kp")])
        want = C("Ok", L(T(C("Exact", I(1)), A("v1.populate")), T(C("Exact", I(2)), A("v2.populate")), T(C("Fallback"), A("v3.populate"))))
        t = flat(show(outer.body))
        if v != want or not has(t, "count_key:new_key"):
            r.viol("R6:populate_with_new_key", "branches are not copied (same range, populated value, in order) under the new count key", file=fn.file, line=fn.line)
        else:
            r.inst("populate_with_new_key", "each (range, value) -> (range.clone(), value.populate(args)) pushed in order; count_key = new_key")
    return r


TYPES = ["I8", "I16", "I32", "I64", "U8", "U16", "U32", "U64", "F32", "F64"]


def r7_type_tables(ctx):
    r = Rule("C04.R7", "numeric-type dispatch tables are the identity",
             "the range type written in the file (\"u8\", ...) decides parsing, conversion of a literal count and the generated "
             "count type; one crossed arm in any 10-way table makes one numeric type behave as another", floor=6)
    ast = ctx.ast
    def table(fn):
        m = find_first(fn.body, "Match")
        out = {}
        for a in (m or {"arms": []})["arms"]:
            pt = show_pat(a["pat"])
            pm = re.search(r"(?:RangeType|UntypedRangesInner)::(\w+)", pt)
            key = pm.group(1) if pm else pt
            bt = show(a["body"])
            vals = set(re.findall(r"(?:RangeType|UntypedRangesInner)::(\w+)", bt))
            lit = re.findall(r'"(\w+)"', bt)
            q = [tok_text(x["tokens"]) for x in xquotes(a["body"])]
            out[key] = (vals, lit, q, bt)
        return out
    checks = [
        ("Ranges::from_type", ast.fn(PR, "from_type", impl_self="Ranges"), "variant"),
        ("Ranges::get_type", ast.fn(PR, "get_type", impl_self="Ranges"), "variant"),
        ("Ranges::populate_with_new_key", ast.fn(PR, "populate_with_new_key", impl_self="Ranges"), "variant"),
        ("Display for RangeType", ast.fn(PR, "fmt", impl_self="RangeType", impl_trait="Display"), "lit-lower"),
        ("macro From<parser RangeType>", ast.fn(MR, "from", impl_self="RangeType"), "variant"),
        ("macro RangeType::to_tokens", ast.fn(MR, "to_tokens", impl_self="RangeType"), "quote-lower"),
    ]
    for name, fn, mode in checks:
        if fn is None:
            r.missing(name)
            continue
        tab = table(fn)
        bad = []
        for t in TYPES:
            vals, lit, q, bt = tab.get(t, (set(), [], [], ""))
            if mode == "variant" and vals != {t}:
                bad.append("%s -> %s" % (t, sorted(vals)))
            if mode == "lit-lower" and lit != [t.lower()]:
                bad.append("%s -> %s" % (t, lit))
            if mode == "quote-lower" and q != [t.lower()]:
                bad.append("%s -> %s" % (t, q))
        if bad:
            r.viol("R7:" + name, "table is not the identity: " + "; ".join(bad), file=fn.file, line=fn.line)
        else:
            r.inst(name, "identity on " + ", ".join(TYPES))
    fn = ast.fn(PR, "from_string", impl_self="TypeOrRange")
    if fn is None:
        r.missing("TypeOrRange::from_string")
    else:
        m = find_first(fn.body, "Match")
        got = {}
        for a in (m or {"arms": []})["arms"]:
            if a["pat"]["k"] == "PLit":
                got[a["pat"]["text"].strip('"')] = re.findall(r"RangeType::(\w+)", show(a["body"]))
        bad = [t for t in TYPES if got.get(t.lower()) != [t]]
        if bad or flat(show(m["scrutinee"])) not in ("s.trim()", "s"):
            r.viol("R7:TypeOrRange::from_string", "type names do not map to the same-named RangeType for %s" % bad, file=fn.file, line=fn.line)
        else:
            r.inst("TypeOrRange::from_string", "\"i8\"..\"f64\" -> same-named RangeType")
    # integer generator vs float generator dispatch (view and string back-ends)
    for name in ("to_token_stream", "as_string_impl"):
        cands = [f for f in ast.fns_named(MR, name) if f.impl_self is None]
        if not cands:
            r.missing("ranges::" + name)
            continue
        fn = cands[0]
        m = find_first(fn.body, "Match")
        want_int = "to_tokens_integers" + ("_string" if name == "as_string_impl" else "")
        want_flt = "to_tokens_floats" + ("_string" if name == "as_string_impl" else "")
        bad = []
        for a in (m or {"arms": []})["arms"]:
            pm = re.search(r"UntypedRangesInner::(\w+)", show_pat(a["pat"]))
            callee = [callee_path(c) for c in find_all(a["body"], "Call")]
            args = [[show(x) for x in c["args"]] for c in find_all(a["body"], "Call")]
            want = want_flt if pm and pm.group(1) in ("F32", "F64") else want_int
            if callee != [want] or args != [["ranges", "&this.count_key", "strings_count"]]:
                bad.append("%s -> %s%s" % (pm.group(1) if pm else "?", callee, args))
        if bad or not m or len(m["arms"]) != 10:
            r.viol("R7:ranges::" + name, "dispatch changed: " + "; ".join(bad), file=fn.file, line=fn.line)
        else:
            r.inst("ranges::" + name, "8 integer types -> %s, F32/F64 -> %s, same (ranges, count_key, strings_count)" % (want_int, want_flt))
    return r


def run(ctx):
    prog = ctx.mir("main")
    return [r1_semantics(ctx), r2_first_match(ctx), r3_ends(ctx), r4_validation(ctx, prog), r5_conversions(ctx, prog), r6_populate(ctx), r7_type_tables(ctx)]


MANIFEST_ENTRY = {
    "technique": "static analysis: abstract evaluation (rules/absint.py) over every range shape and every ordering of count and bounds of the parse-time matcher, the generated integer patterns and the generated float conditions, each compared with the documented range semantics; of Range::new on one spelling per grammar production under the integer and float end rules; of the first-match scan and the fallback analysis; MIR dominance of range validation, MIR cast scan; abstract evaluation of deserialize_all_pairs (every declared branch kept, repeats included) and of populate_with_count_arg for every numeric type x literal kind x count (narrowing casts modelled); MIR return summaries of the 30 RangeNumber::from_u64 / from_i64 / from_f64 impls",
    "level_text": "Structural / finite case analysis: `a..b` excludes b, `a..=b` includes it, open sides are unbounded, the first declared branch wins - decided for the three encodings (parser matcher, generated patterns, generated float conditions) by evaluating the source over all orderings a comparison can distinguish, plus validation dominance and lossless literal conversion on the CFG. No translation is loaded or rendered.",
    "level_note": "Trusted: Rust pattern/RangeBounds semantics; str::parse. Not decided: behaviour at numeric extremes, concrete selections.",
}
