"""C02 Every accessor flavour of a key denotes the same text."""
import re
from mirlib import callee_name

from report import Rule
from astlib import find_all, find_first, show, show_pat, quotes_in, tok_text, method_chain, callee_path
from rules.common import flat, flatp, has, same, xquotes

EXPLANATION = (
    "Static structural analysis (syntax facts of the two code generators, the t! family and the run-time wrappers); "
    "nothing is expanded or executed. Decided clauses: (R1) sibling generators agree: the view back-end and the "
    "string/Display back-end (a) build the per-locale arms from the same locale list in the same order with the same "
    "`| defaulted locales` alternatives, (b) emit range branches from the same iteration, the same pattern / condition "
    "functions and the same fallback shape, (c) emit plural arms the same way with the same `_ => other`, and (d) map every "
    "formatter to the same `format_<family>_to_*` family with the same option arguments in the same order. (R2) the output "
    "selector table (View -> builder + build().into_view, String -> display_builder + build_string, Display -> "
    "display_builder + build_display) and the literal wrappers are identities on the carried value. (R3) the input "
    "selector table (context tracked / untracked / locale) ends in the same `.key()` chain; a key path is emitted in "
    "order; the scope macros only pass `|_k| _k.<keys>()`. (R4) scoping is type-state only: I18nContext::scope copies the "
    "locale signal, scope_ctx_util only calls scope, scope_locale_util wraps `locale.to_base_locale()`, and a scoped "
    "locale's keys come from its base locale. NOT decided: equality of the rendered HTML and the Display text for a "
    "concrete value type (leptos / fmt)."
)
ASSUMPTIONS = ["leptos renders a value of a type the same way as its Display impl writes it (numbers, strings)",
               "the run-time format_*_to_view / _to_formatter / _to_display families agree (C18.R4)"]

MV = "leptos_i18n_macro/src/load_locales/parsed_value.rs"
MR = "leptos_i18n_macro/src/load_locales/ranges.rs"
MP = "leptos_i18n_macro/src/load_locales/plurals.rs"
MI = "leptos_i18n_macro/src/load_locales/interpolate.rs"
MF = "leptos_i18n_macro/src/utils/formatter.rs"
TM = "leptos_i18n_macro/src/t_macro/mod.rs"


def lets_of(fn):
    out = {}
    for l in find_all(fn.body, "Let"):
        if l["pat"]["k"] == "PIdent" and "init" in l and l["pat"]["name"] not in out:
            out[l["pat"]["name"]] = l
    return out


def chain_of(expr):
    base, ch = method_chain(expr)
    fields = [m for m, _, _ in ch if m.startswith(".")]
    return show(base) + "".join(fields), [m for m, _, _ in ch if m not in ("?",) and not m.startswith(".")]


def r1_siblings(ctx):
    r = Rule("C02.R1", "view and string back-ends are generated from the same skeleton",
             "`t!` vs `t_string!`/`t_display!`: one back-end iterating in another order, filtering, using another fallback, or "
             "dropping the defaulted-locale alternatives renders another branch or another locale's text in that flavour only", floor=14)
    ast = ctx.ast
    # (a) per-locale arms
    a = ast.fn(MI, "create_locale_impl", impl_self="Interpolation")
    b = ast.fn(MI, "create_locale_string_impl", impl_self="Interpolation")
    arms_decided = False
    if a is not None and b is not None:
        # decided by evaluation (rules/gentext.py): both generators are run on one key and their arms read back - same arms, same
        # fallbacks, each rendering its own locale's value through its own table
        from rules import gentext, absint as _absint
        from report import Rule as _Rule
        tmp = _Rule("C02.R1", "arms", "arms", floor=0)
        try:
            arms_decided = gentext.check_locale_arms(ctx, tmp, rid="R1")
        except _absint.Unknown as u:
            r.viol("R1:locale-arms#undecided", "the per-locale generators cannot be interpreted on the current code (%s): fail closed; the structural comparison is reported alongside" % str(u)[:200], file=MI)
        r.instances += tmp.instances
        r.violations += tmp.violations
        if arms_decided:
            for nm in ("per-locale arms", "per-locale arm order", "per-locale defaulted", "per-locale value"):
                r.inst(nm, "both back-ends generated for one key and read back (see the two instances above)")
    if a is None or b is None:
        r.missing("create_locale_impl / create_locale_string_impl")
    elif not arms_decided:
        def arm_heads(fn):
            heads = []
            for q in xquotes(fn.body):
                t = flat(tok_text(q["tokens"]))
                m = re.match(r"^(#enum_ident::#locale_key(?:\(#translations_key\))?(?:#defaulted)?)=>", t)
                if m:
                    heads.append(m.group(1))
            return heads
        ha, hb = arm_heads(a), arm_heads(b)
        # the client (dynamic_load without ssr) string impl matches on an enum carrying the table: its defaulted locales are resolved in display_impl::new_fn
        hb_n = [h.replace("(#translations_key)", "#defaulted") for h in hb]
        if ha and set(ha) == {"#enum_ident::#locale_key#defaulted"} and set(hb_n) == {"#enum_ident::#locale_key#defaulted"} and len(ha) == len(hb):
            r.inst("per-locale arms", "both back-ends: `Enum::locale #defaulted => ..` in all %d configurations" % len(ha))
        else:
            r.viol("R1:locale-arms", "arm heads differ: view %s vs string %s" % (sorted(set(ha)), sorted(set(hb))), file=MI)
        def src(fn):
            for m in find_all(fn.body, "MethodCall"):
                if m["method"] == "map" and show(method_chain(m)[0]) == "locales":
                    return [x for x in chain_of(m)[1] if x != "enumerate"]
            return None
        sa, sb = src(a), src(b)
        if sa == sb == ["iter", "rev", "map"]:
            r.inst("per-locale arm order", "locales.iter().rev() in both")
        else:
            r.viol("R1:locale-order", "locales are walked as %s (view) vs %s (string)" % (sa, sb), file=MI)
        ta, tb = flatp(show(a.body)), flatp(show(b.body))
        da = "letdefaulted=defaults.get&locale.top_locale_name"
        if has(ta, da) and has(tb, da):
            r.inst("per-locale defaulted", "both take `defaults.get(&locale.top_locale_name)`")
        else:
            r.viol("R1:locale-defaulted", "one back-end does not take its defaulted locales from the computed table", file=MI)
        va = "letvalue=locale.keys.getkey"
        if has(ta, va) and has(tb, va) and has(ta, "parsed_value::to_token_streamvalue,locale.top_locale_string_count") and has(tb, "parsed_value::as_string_implvalue,locale.top_locale_string_count"):
            r.inst("per-locale value", "both render locale.keys.get(key) with the locale's table size")
        else:
            r.viol("R1:locale-value", "the two back-ends do not render the same value", file=MI)
    # (b) ranges
    for pair, kind in ((("to_tokens_integers", "to_tokens_integers_string"), "int"), (("to_tokens_floats", "to_tokens_floats_string"), "float")):
        fa, fb = ast.fn(MR, pair[0]), ast.fn(MR, pair[1])
        if fa is None or fb is None:
            r.missing("ranges::%s / %s" % pair)
            continue
        la, lb = lets_of(fa), lets_of(fb)
        var = "match_arms" if kind == "int" else "ifs"
        if var not in la or var not in lb:
            r.viol("R1:ranges-%s#arms" % kind, "cannot find `%s` in both generators" % var, file=MR)
            continue
        ca, cb = chain_of(la[var]["init"]), chain_of(lb[var]["init"])
        na = [m for m in ca[1] if m != "enumerate"]
        if ca[0] == cb[0] == "ranges" and na == cb[1] == ["iter", "map"]:
            r.inst("ranges %s: iteration" % kind, "ranges.iter().map in both (view adds enumerate for the Either wrapper)")
        else:
            r.viol("R1:ranges-%s#iteration" % kind, "branches are walked as %s.%s (view) vs %s.%s (string)" % (ca[0], ".".join(ca[1]), cb[0], ".".join(cb[1])), file=MR)
        ta, tb = flatp(show(fa.body)), flatp(show(fb.body))
        fn_ = "range_to_token_streamrange" if kind == "int" else "range_to_conditionrange"
        if has(ta, fn_) and has(tb, fn_) and has(ta, "parsed_value::to_token_streamvalue,strings_count") and has(tb, "parsed_value::as_string_implvalue,strings_count"):
            r.inst("ranges %s: selection" % kind, "both select with %s and render the branch's own value" % fn_[:-5])
        else:
            r.viol("R1:ranges-%s#selection" % kind, "the two generators do not select branches with the same function", file=MR)
        qa = [flat(tok_text(q["tokens"])) for q in xquotes(fa.body)]
        qb = [flat(tok_text(q["tokens"])) for q in xquotes(fb.body)]
        if kind == "int":
            ok = any("match#count_key(){#(#match_arms,)*}" in q for q in qa) and any("match*#count_key{#(#match_arms,)*}" in q for q in qb) and "#range=>{#ts}" in qa and "#range=>#value" in qb
        else:
            ok = "#first#(else#ifs)*" in qa and "#first#(else#ifs)*" in qb and "if#condition{#ts}" in qa and "if#condition{#value}" in qb and "{#ts}" in qa and "{#value}" in qb \
                and any("letplural_count=#count_key();#ifs" in q for q in qa) and any("letplural_count=*#count_key;#ifs" in q for q in qb)
        if ok:
            r.inst("ranges %s: template" % kind, "same selection construct, no extra or missing arm")
        else:
            r.viol("R1:ranges-%s#template" % kind, "selection templates differ between the two generators", file=MR)
    # (c) plurals
    from rules import genplurals
    outs = genplurals.evaluate(ast)
    ska = genplurals.skeleton(outs.get("to_token_stream", (None, None, None))[1])
    skb = genplurals.skeleton(outs.get("as_string_impl", (None, None, None))[1])
    if ska is None or skb is None:
        r.viol("R1:plurals#generators", "the plural generators cannot be evaluated: view %s / string %s" % (outs.get("to_token_stream", (0, 0, "missing"))[2], outs.get("as_string_impl", (0, 0, "missing"))[2]), file=MP)
    else:
        if ska[1] == skb[1] and len(ska[1]) == 3:
            r.inst("plurals: iteration", "both back-ends emit one arm per written form, in the same order, for the same categories and values")
        else:
            r.viol("R1:plurals#iteration", "forms are walked differently: view arms %s vs string arms %s" % (ska[1], skb[1]), file=MP)
        if ska[2] == skb[2] == "vother" and ska[0] == skb[0] and ska[3] == skb[3]:
            r.inst("plurals: fallback", "`_ => other`, same rule type and count in both")
        else:
            r.viol("R1:plurals#fallback", "the two generators do not share the `_ => other` fallback / rule type / count: view %s vs string %s" % (ska, skb), file=MP)
    # (d) formatter families: the three generators evaluated on every family (rules/c18.py _r3_codegen, shared with C18.R3): each emits
    # format_<family>_<its flavour>(locale, value, the variant's options in declaration order) - same family, same options in all three
    from rules import c18 as _c18
    from report import Rule as _Rule2
    tmp2 = _Rule2("C02.R1", "formatters", "formatters", floor=0)
    _c18._r3_codegen(tmp2, ctx)
    for i_ in tmp2.instances:
        if i_["site"].startswith("Formatter::var_"):
            r.instances.append(dict(i_))
    for v_ in tmp2.violations:
        if re.search(r"var_to_view|var_fmt|var_to_display", v_.key):
            r.viol("R1:" + v_.key.split(":", 1)[1], "the three back-ends of a formatted variable must call the same family with the same options: " + v_.msg, file=v_.file, line=v_.line)
    return r


def r2_output_table(ctx):
    r = Rule("C02.R2", "output selector table and identity wrappers",
             "`t!`, `t_string!`, `t_display!` must reach the same builder with the matching build function; literal keys go through "
             "wrappers that must hand the value back unchanged", floor=10)
    ast = ctx.ast
    from rules import tmacro, absint as _absint
    try:
        tmacro.check_selectors(ctx, r, "R2")
    except _absint.Unknown as u:
        r.viol("R2:t_macro_inner#undecided", "t_macro_inner cannot be interpreted on the current code (%s): not decided on this tree (fail closed)" % str(u)[:300], file=TM)
    f = "leptos_i18n/src/macro_helpers/mod.rs"
    # value-level summaries from MIR (py/mirsum.py): the same for `self.0` / `self.inner()`, method or path call syntax
    from rules.common import msum
    prog = ctx.mir("main")
    want = {"builder": "p1", "display_builder": "p1", "build": "p1", "into_view": "p1.0", "build_string": "Literal::into_str(p1.0)", "build_display": "p1.0",
            "inner": "p1.0", "new": "LitWrapper#LitWrapper(p1)"}
    for name, w in want.items():
        got = msum(prog, r"macro_helpers::LitWrapper::<T>::%s$" % name)
        if not got:
            r.missing("LitWrapper::" + name)
        elif got[0][1] == w and not got[0][2]:
            r.inst("LitWrapper::" + name, "returns " + w)
        else:
            r.viol("R2:LitWrapper::" + name, "returns `%s` (effects %s), expected the identity `%s`" % (got[0][1], got[0][2], w), file=f)
    futw = {"into_view": "{self.0.await.into_view}", "build_string": "{self.0.await.build_string}", "build_display": "{self.0.await.build_display}"}
    for name, w in futw.items():
        cands = [x for x in ast.fns if x.file.endswith(f) and x.name == name and x.impl_self and x.impl_self.startswith("LitWrapperFut")]
        texts = {flatp(show(x.body)) for x in cands}
        ok = bool(cands) and all(t in (w, w.replace(".await", "")) for t in texts)
        if ok:
            r.inst("LitWrapperFut::" + name, "forwards to the inner wrapper's %s" % name)
        else:
            r.viol("R2:LitWrapperFut::" + name, "is %s" % texts, file=f)
    return r


def r3_input_table(ctx):
    r = Rule("C02.R3", "input selector table; key path emitted in order; scope macros are plain key closures",
             "`scoping never changes which locale or which key is read`", floor=6)
    ast = ctx.ast
    fn = ast.fn(TM, "get_key", impl_self="InputType")
    if fn is None:
        r.missing("InputType::get_key")
    else:
        # evaluated (rules/absint.py): the token text get_key produces for each input selector
        from rules.absint import AEval, C as _C, TOK as _TOK
        want = {"Context": "leptos_i18n::I18nContext::get_keys(INPUT).KEYS()", "Untracked": "leptos_i18n::I18nContext::get_keys_untracked(INPUT).KEYS()", "Locale": "leptos_i18n::Locale::get_keys(INPUT).KEYS()"}
        for k, w in want.items():
            v = AEval(funcs={}).run_fn(fn, [_C(k), _TOK("INPUT"), _TOK("KEYS")])
            got = flat(v[1]) if not isinstance(v, str) and v[0] == "tok" else str(v)
            if got == w:
                r.inst("InputType::%s" % k, w)
            else:
                r.viol("R3:get_key#" + k, "is %s" % got, file=fn.file, line=fn.line)
    fn = ast.fn("leptos_i18n_macro/src/utils/mod.rs", "to_tokens", impl_self="Keys")
    t = flatp(show(fn.body)) if fn else ""
    if has(t, "Keys::SingleKeykey=>tokens.appendkey.clone") and has(t, "Keys::Subkeyskeys=>tokens.append_separatedkeys,quote!."):
        r.inst("Keys::to_tokens", "single key, or every key in order separated by `().`")
    else:
        r.viol("R3:Keys::to_tokens", "is `%s`" % t, file="leptos_i18n_macro/src/utils/mod.rs")
    fn = ast.fn("leptos_i18n_macro/src/utils/mod.rs", "parse_subkeys")
    t = flatp(show(fn.body)) if fn else ""
    if t.startswith("{keys.pushinput.parse?;whileinput.peekToken!") and t.endswith("?;keys.pushinput.parse?}Ok}") and t.count("keys.push") == 2:
        r.inst("parse_subkeys", "keys pushed in source order")
    else:
        r.viol("R3:parse_subkeys", "is `%s`" % t, file="leptos_i18n_macro/src/utils/mod.rs")
    sc = "leptos_i18n_macro/src/utils/scoped.rs"
    want = {"scope_i18n_inner": "{leptos_i18n::__private::scope_ctx_util(#context,|_k|_k.#keys())}", "use_i18n_scoped_inner": "{leptos_i18n::__private::scope_ctx_util(use_i18n(),|_k|_k.#keys())}",
            "scope_locale_inner": "{leptos_i18n::__private::scope_locale_util(#locale,|_k|_k.#keys())}"}
    for name, w in want.items():
        fn = ast.fn(sc, name)
        qs = [flat(tok_text(q["tokens"])) for q in xquotes(fn.body)] if fn else []
        if qs == [w]:
            r.inst(name, w)
        else:
            r.viol("R3:" + name, "is %s" % qs, file=sc)
    return r


def r4_scoping(ctx):
    r = Rule("C02.R4", "scoping is type-state only",
             "a scoped context must share the locale signal, a scoped locale must wrap the same base locale", floor=5)
    ast = ctx.ast
    f = "leptos_i18n/src/macro_helpers/scope.rs"
    from rules.common import msum
    prog = ctx.mir("main")
    want = [
        (r"context::I18nContext::<L, S>::scope$", "I18nContext#I18nContext(p1.locale_signal, PhantomData#PhantomData())", "I18nContext::scope", "locale_signal: self.locale_signal (same signal, new marker type)", "leptos_i18n/src/context.rs"),
        (r"macro_helpers::scope::scope_ctx_util$", "I18nContext#I18nContext(p1.locale_signal, PhantomData#PhantomData())", "scope_ctx_util", "the same signal under a new marker type", f),
        (r"macro_helpers::scope::scope_locale_util$", "ScopedLocale#ScopedLocale(Locale::to_base_locale(p1), PhantomData#PhantomData())", "scope_locale_util", "wraps locale.to_base_locale()", f),
        (r"scopes::ScopedLocale::<L, S>::new$", "ScopedLocale#ScopedLocale(p1, PhantomData#PhantomData())", "ScopedLocale::new", "wraps the given locale", "leptos_i18n/src/scopes.rs"),
        (r"locale_traits::Locale::get_keys$", "LocaleKeys::from_locale(Locale::to_base_locale(p1))", "Locale::get_keys", "keys of self.to_base_locale()", "leptos_i18n/src/locale_traits.rs"),
        (r"context::I18nContext::<L, S>::get_keys$", "LocaleKeys::from_locale(Get::get(p1.locale_signal))", "I18nContext::get_keys", "keys of the tracked locale", "leptos_i18n/src/context.rs"),
        (r"context::I18nContext::<L, S>::get_keys_untracked$", "LocaleKeys::from_locale(GetUntracked::get_untracked(p1.locale_signal))", "I18nContext::get_keys_untracked", "keys of the untracked locale", "leptos_i18n/src/context.rs"),
    ]
    for rx, w, label, what, file in want:
        got = msum(prog, rx)
        if not got:
            r.missing(label)
        elif got[0][1] == w and not got[0][2]:
            r.inst(label, what + ": " + w)
        else:
            r.viol("R4:" + label, "returns `%s` (effects %s), expected `%s`" % (got[0][1], got[0][2], w), file=file)
    return r


def r6_literal_text(ctx):
    """the string flavour of a plain literal key is `Literal::into_str`, every other flavour prints the value with Display:
    each impl must denote the Display text of the value (MIR return summaries / paths, py/mirsum.py)"""
    import mirsum
    from rules.common import msum
    r = Rule("C02.R6", "the string flavour of a literal key is the Display text of the literal",
             "`t_string!` on a literal key returns Literal::into_str(value) while `t!`, `t_display!` and the const accessor print the value "
             "with Display: an impl that formats differently (Debug, another precision, another spelling of a boolean) makes the flavours "
             "disagree for exactly those values", floor=5)
    prog = ctx.mir("main")
    impls = sorted(nm for nm in prog.bodies if re.search(r"^<.+ as leptos_i18n::macro_helpers::Literal>::into_str$", nm))
    for nm in impls:
        ty = nm[1:nm.index(" as ")]
        b = prog.body("^" + re.escape(nm) + "$") if False else prog.bodies[nm]
        got = msum(prog, "^" + re.escape(nm) + "$")
        summ = got[0][1] if got else None
        ok = False
        what = None
        if summ == "p1" and "str" in ty:
            ok, what = True, "the string itself"
        elif summ == "ToString::to_string(p1)":
            ok, what = True, "ToString::to_string(value): the Display text"
        elif ty == "bool":
            ps = mirsum.paths(prog, b, depth=0)
            want = {(("eq", ("p", 1), "0"),): ("const", "false"), (("ne", ("p", 1), "0"),): ("const", "true")}
            if ps is not None and len(ps) == 2 and all(not tr and want.get(tuple(c)) == res for c, tr, res in ps):
                ok, what = True, "true -> \"true\", false -> \"false\" (what Display prints)"
        if ok:
            r.inst("Literal for " + ty, what)
        else:
            r.viol("R6:Literal::into_str#" + ty, "the string flavour of a `%s` literal is `%s`, not the Display text of the value the other flavours print" % (ty, summ if summ else "a computed text"), file="leptos_i18n/src/macro_helpers/mod.rs", line=b.line)
    return r


def r7_formatter_pipeline(ctx):
    """for each formatter family the view, display and fmt entry points must hand the same conversion of the user's value to the
    ICU formatter (MIR path traces, py/mirsum.py): a conversion step present in one flavour only (rounding, padding, another
    calendar conversion) makes `t!` and `t_string!` print different text for the same arguments"""
    import mirsum
    from rules import c18
    r = Rule("C02.R7", "the view / display / fmt flavours of a formatter feed the same converted value to the ICU formatter",
             "`all denote the same text`: `{{ var, formatter }}` goes through format_X_to_view in the view flavour and format_X_to_formatter / "
             "_to_display in the string flavours; a step applied to the value in one of them only makes the flavours diverge", floor=11)
    prog = ctx.mir("main")

    def fmt_call(t):
        if isinstance(t, tuple):
            if t and t[0] == "call" and re.search(r"Formatter::format\w*$", t[1]):
                return t
            for x in t:
                f = fmt_call(x)
                if f is not None:
                    return f
        return None

    def norm(txt, names):
        txt = re.sub(r"\bp(\d+)\.(\d+)\b", lambda m: names.get((int(m.group(1)), int(m.group(2))), m.group(0)), txt)
        txt = re.sub(r"\bp(\d+)\b", lambda m: names.get(int(m.group(1)), m.group(0)), txt)
        return re.sub(r"\b(?:[A-Za-z_]\w*::)+(?=[a-z_]\w*\()", "", txt)

    # the view flavour receives a closure producing the value; its InputFn trait calls the closure and converts the result with the
    # by-value twin (into_icu_X) of the conversion the string flavours apply by reference (as_icu_X): one conversion class each
    want_fn = {"to_icu_date": "IntoIcuDate::into_icu_date(Fn::call(self, ()))", "to_icu_datetime": "IntoIcuDateTime::into_icu_datetime(Fn::call(self, ()))",
               "to_list": "Fn::call(self, ())", "to_fixed_decimal": "IntoFixedDecimal::to_fixed_decimal(Fn::call(self, ()))", "to_icu_time": "IntoIcuTime::into_icu_time(Fn::call(self, ()))"}
    seen_fn = {}
    for n, bb in prog.bodies.items():
        m = re.search(r"InputFn>::(to_\w+)$", n)
        if m and n.startswith("<F as leptos_i18n::macro_helpers::formatting::"):
            t = mirsum.summary(prog, bb, depth=1, args=[("cap", "self")])
            seen_fn[m.group(1)] = (mirsum.fmt(t) if t is not None else "a branching computation", bb)
    for name, w in sorted(want_fn.items()):
        if name not in seen_fn:
            r.missing("InputFn::" + name)
        elif seen_fn[name][0] == w:
            r.inst("InputFn::" + name, "calls the closure and converts what it returns: " + w)
        else:
            r.viol("R7:InputFn::%s#wrapper" % name, "the view flavour's input wrapper is `%s`, expected `%s`" % (seen_fn[name][0], w), file=seen_fn[name][1].file, line=seen_fn[name][1].line)
    CLASS = [(r"\b(?:to|as|into)_icu_(date|time|datetime)\(", r"icu_\1("), (r"\bto_list\(([^()]*)\)", r"\1")]

    for fam, (pre, _getter, _gp) in sorted(c18.ENTRY.items()):
        got = {}
        for kind in ("to_view", "to_display", "to_formatter"):
            b = prog.body(c18.FMOD + pre + "_" + kind)
            if b is None:
                r.missing(pre + "_" + kind)
                continue
            names = {i: b.local_name(i) for i in range(1, b.arg_count + 1)}
            body = b
            t = mirsum.summary(prog, b, depth=3, args=[("cap", names[i]) for i in range(1, b.arg_count + 1)])
            if t is not None and t[0] == "closure":
                # the view flavour returns a closure: its body, with the captures named after what they capture
                cbs = [x for x in prog.family(b) if x is not b and x.name.endswith(t[1])]
                if len(cbs) != 1:
                    r.viol("R7:%s_%s#closure" % (fam, kind), "the returned closure was not found", file=b.file, line=b.line)
                    continue
                body = cbs[0]
                names = {(1, k): (c[1] if c[0] == "cap" else "<formatter>") for k, c in enumerate(t[2])}
            ps = mirsum.paths(prog, body, depth=0)
            vals = set()
            for _c, trace, _ret in ps or []:
                f = None
                for x in trace:
                    f = f or fmt_call(x)
                f = f or fmt_call(_ret)          # (a helper inlined into the returned term)
                if f is None:
                    # the call may sit in a private helper of the same module: its format call, with the helper's parameters replaced
                    # by the arguments of this call
                    for x in trace:
                        hb = prog.bodies.get(x[1]) if x[0] == "call" else None
                        if hb is None and x[0] == "call":
                            cands_ = [bb_ for n_, bb_ in prog.bodies.items() if n_.endswith("::" + x[1].split("::")[-1]) and "macro_helpers::formatting::" in n_]
                            hb = cands_[0] if len(cands_) == 1 else None
                        if hb is None or "macro_helpers::formatting::" not in hb.name or (hb.is_pub and not re.search(r"::format_\w+_to_(display|view|formatter)$", hb.name)):
                            continue          # (a private helper, or a sibling entry point this one delegates to)
                        for _c2, tr2, _r2 in mirsum.paths(prog, hb, depth=0) or []:
                            f2 = None
                            for y in tr2:
                                f2 = f2 or fmt_call(y)
                            if f2 is not None:
                                def sub_(t_, args_=x[2]):
                                    if isinstance(t_, tuple):
                                        if len(t_) == 2 and t_[0] == "p" and isinstance(t_[1], int) and 1 <= t_[1] <= len(args_):
                                            return args_[t_[1] - 1]
                                        return tuple(sub_(u_, args_) for u_ in t_)
                                    return t_
                                f = sub_(f2)
                                break
                        if f is not None:
                            break
                if f is None:
                    vals.add("<a path that returns without calling the ICU formatter>")
                if f is not None:
                    v_ = ", ".join(norm(mirsum.fmt(a), names) for a in f[2][1:])
                    for rx_, rp_ in CLASS:
                        v_ = re.sub(rx_, rp_, v_)
                    vals.add(v_)
            if len(vals) != 1:
                r.viol("R7:%s_%s#format-call" % (fam, kind), "no single call of the ICU formatter's format method was found on its paths (%s)" % sorted(vals), file=b.file, line=b.line)
                continue
            got[kind] = vals.pop()
        # ... and hand on what the ICU formatter produced as it is: between the format call and the output a flavour only moves the
        # text (Display::fmt, write_to, to_string, unwrap ..); an editing step there (replace, trim, case mapping, padding, a format
        # template with text of its own) exists in that flavour only
        edits = []
        for kind in ("to_view", "to_display", "to_formatter"):
            b = prog.body(c18.FMOD + pre + "_" + kind)
            if b is None:
                continue
            todo, done = list(prog.family(b)), set()
            while todo:
                bb = todo.pop()
                if bb.name in done:
                    continue
                done.add(bb.name)
                for _i, t_ in bb.calls():
                    cn = callee_name(t_) or "<indirect call>"
                    if _PASS.search(cn):
                        continue
                    hb = prog.bodies.get(cn)
                    if hb is not None and "macro_helpers::formatting::" in hb.name and not hb.is_pub:
                        todo.extend(prog.family(hb))
                        continue
                    if t_.get("macro") and re.search(r"write_fmt$|fmt::format$|Arguments::|Argument::|format::", cn):
                        continue        # (write! / format!: their template is read from the source below)
                    edits.append((kind, bb, cn, t_.get("line")))
            afn = ctx.ast.fn("leptos_i18n/src/macro_helpers/formatting/%s.rs" % pre.split("::")[0], pre.split("::")[-1] + "_" + kind)
            if afn is not None:
                from astlib import find_all as _find_all
                for nd in _find_all(afn.body, "Macro"):
                    mname = nd.get("path", "").split("::")[-1]
                    if mname in ("write", "writeln", "format", "format_args", "print", "println"):
                        lits = re.findall(r'"((?:[^"\\\\]|\\\\.)*)"', nd.get("text", "") or "")
                        if mname in ("writeln", "println") or not lits or lits[0] != "{}":
                            edits.append((kind, None, "%s!(%s)" % (mname, (nd.get("text") or "")[:40]), nd.get("line")))
        for kind, bb, cn, ln in edits:
            r.viol("R7:%s_%s#edits-output" % (fam, kind), "the %s flavour calls `%s` on the way from the ICU formatter to its output; the other flavours hand the formatted text on "
                   "unchanged, so this flavour alone prints an edited text" % (kind, cn), file=(bb.file if bb is not None else "leptos_i18n/src/macro_helpers/formatting/%s.rs" % pre.split("::")[0]), line=ln)
        if len(got) == 3 and not edits:
            r.inst("format_%s#passes-output-on" % fam, "the three flavours only move the formatted text (fmt / write_to / to_string / unwrap): no call outside the pass-through vocabulary")
        if len(got) == 3:
            if len(set(got.values())) == 1:
                r.inst("format_" + fam, "all three flavours format `%s`" % got["to_view"])
            else:
                odd = [k for k in got if list(got.values()).count(got[k]) == 1]
                r.viol("R7:format_%s#same-value" % fam, "the flavours format different values: " + "; ".join("%s: `%s`" % (k, got[k]) for k in sorted(got)) + (" (odd one out: %s)" % odd[0] if len(odd) == 1 else ""),
                       file="leptos_i18n/src/macro_helpers/formatting/%s.rs" % pre.split("::")[0])
    return r


_PASS = re.compile(r"formatting::get_\w+_formatter$|InputFn>?::to_\w+$|::(as|into|to)_icu_\w+$|::to_fixed_decimal$|IntoIterator>?::into_iter$|Formatter::format\w*$"
                   r"|::format_\w+_to_(display|view|formatter)$|Display>?::fmt$|Writeable>?::write_to\w*$|::write_to_string$|String::new$|String::with_capacity$|::unwrap$|::expect$"
                   r"|::to_string$|::into_owned$|::write_str$|Deref>?::deref$|::as_str$|From<[^>]*>>?::from$|Into<[^>]*>>?::into$|::clone$|::as_ref$|::borrow$|::into_view$|::into_any$"
                   r"|::to_owned$|Fn\w*<[^>]*>>?::call\w*$|::writeable_length_hint$|::capacity$")


def run(ctx):
    # both flavours denote the text only if each of them emits every piece: the emission clauses of C01.R4 (the view
    # back-end regroups large blocs into nested tuples, the string back-end does not; decided by rules/c01.py)
    from rules import c01
    from rules.common import borrow
    r5 = borrow(c01.r4_emission(ctx), "C02.R5", "each back-end emits every collected piece, in order",
                "`all denote the same text`: a piece dropped by one back-end only (e.g. while regrouping a long value for the view) "
                "makes the flavours diverge on that value", floor=3)
    from rules import entrytable
    r8 = Rule("C02.R8", "each macro name selects the locale source and output flavour it says",
              "`t!`, `td!`, `tu!` and their `_string` / `_display` flavours `all denote the same text`: the flavour and the locale source are selected by constants in the entry points; a crossed constant makes one macro behave as another", floor=4)
    entrytable.check(ctx, r8, "R8")
    return [r1_siblings(ctx), r2_output_table(ctx), r3_input_table(ctx), r4_scoping(ctx), r5, r6_literal_text(ctx), r7_formatter_pipeline(ctx), r8]


MANIFEST_ENTRY = {
    "technique": "static analysis: symbolic evaluation of both plural generators and comparison of their selection skeletons (rules/genplurals.py), sibling comparison of the range generators and formatter families (syn, expanded templates), abstract evaluation of the t! input selector (get_key) to token text, selector-table extraction of the output flavours, MIR return-value summaries (py/mirsum.py) showing wrappers, scope helpers and every Literal::into_str impl to be identities / the Display text, the emission clauses of C01.R4 (each back-end emits every piece, incl. the tuple regrouping of the view back-end); MIR path traces (py/mirsum.py) of the 18 formatter entry points incl. the closure returned by the view flavour: all three flavours of a family hand the same converted value to the ICU formatter, on every path; the macro entry-point table (rules/entrytable.py); the selector tables read off the code t_macro_inner generates; C02.R7 pass-through vocabulary: between the ICU format call and the output a flavour only moves the text (resolved callees against a whitelist, private helpers followed, write!/format! templates read from the source); C02.R1 formatter families by evaluation of the three generators (shared with C18.R3)",
    "level_text": "Structural: the two back-ends are compared construct by construct on every run (an asymmetry is what makes flavours diverge) and each is shown to emit every piece; the macro selector tables are evaluated / extracted; wrappers, scoping and the string flavour of plain literals are shown to be identities on locale, key and Display text. Rendered strings are not compared.",
    "level_note": "Trusted: leptos rendering equals Display for the value types. Not decided: HTML vs Display text of a concrete value.",
}
