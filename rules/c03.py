"""C03 Missing keys fall back along the inheritance chain, then to default."""
import re

from report import Rule
from mirlib import callee_name, op_const, op_place, backward_slice
import mustlib as M
from astlib import find_all, find_first, show, show_pat, quotes_in, tok_text, method_chain, callee_path

EXPLANATION = (
    "Static structural analysis (MIR provenance/dominance + syntax facts of parser and generators); nothing executed. "
    "Decided clauses: (R1) check_locales_inner chooses, per non-default locale, DefaultTo::Explicit(inherits[locale]) when "
    "the locale has an `inherits` entry and otherwise Implicit(default locale) (Explicit(default) under "
    "suppress_key_warnings), and hands that value unchanged to Locale::merge. (R2) a null/absent value records (locale -> "
    "default_to) in the key's DefaultedLocales - for a whole subkey group by merging a dummy locale made of nulls for every "
    "key of the group with the same default_to - and nothing else writes that map. (R3) the chain walk follows the map from "
    "the locale, stops at the first locale without an entry, and returns the default locale when it meets a locale already "
    "visited; every walk starts with an empty visited set (fresh or cleared). (R4) every generator widens the match arm of "
    "a defining locale with exactly the locales compute() assigns to it and skips locales whose value is null. (R5) the "
    "default locale can never default: a null in it is ExplicitDefaultInDefault. (R6) no other fallback rule exists - known "
    "finding D11: the foreign-key resolver falls back to the default locale directly. NOT decided: the result of the walk "
    "for a concrete inherits map."
)
ASSUMPTIONS = ["Rust or-patterns `A | B =>` select the arm for both", "HashSet/BTreeMap semantics"]

PL = "leptos_i18n_parser/src/parse_locales/locale.rs"
PM = "leptos_i18n_parser/src/parse_locales/mod.rs"
PV = "leptos_i18n_parser/src/parse_locales/parsed_value.rs"
ML = "leptos_i18n_macro/src/load_locales/mod.rs"
MI = "leptos_i18n_macro/src/load_locales/interpolate.rs"


def flat(s):
    return re.sub(r"\s+", "", s)


from rules.common import flatp, has, same, xquotes  # noqa: E402


def r1_default_to(ctx, prog, cfg):
    r = Rule("C03.R1", "DefaultTo is chosen from `inherits`, else the default locale, and reaches Locale::merge unchanged",
             "this is where the inherits chain enters the key merging; using the default locale although an `inherits` entry "
             "exists (or the reverse) changes which locale a missing key falls back to", floor=4)
    b = prog.body("parse_locales::check_locales_inner")
    if b is None:
        r.missing("check_locales_inner")
        return r
    # the value handed to Locale::merge as `default_to`, evaluated abstractly (rules/absint.py) for a locale with and
    # without an `inherits` entry, with and without `suppress_key_warnings`; a helper the choice was moved to is inlined
    from rules import absint, checklocales
    fn = ctx.ast.fn(PM, "check_locales_inner")
    if fn is None:
        r.missing("check_locales_inner (syntax)")
        return r
    # abstract evaluation of the whole function on locales [en (default), fr-CA (inherits fr), fr, de] in every order
    rows = checklocales.table(ctx)
    bad = [(order, sup, res, log, want) for (order, sup, res, log, want) in rows if res != absint.C("Ok", absint.A("DEFAULT-KEYS")) or log != want]
    if not bad:
        r.inst("check_locales_inner#lookup", "extensions.get(&top_locale), top_locale = locale.name (%d orders x suppress on/off)" % (len(rows) // 2), cfg=cfg)
        r.inst("check_locales_inner#DefaultTo::Explicit@Some", "Explicit(<the inherits entry of this locale>)", cfg=cfg)
        r.inst("check_locales_inner#DefaultTo@None", "no entry: Explicit(default locale) under suppress_key_warnings, else Implicit(default locale) - whatever locales came before", cfg=cfg)
    else:
        order, sup, res, log, want = bad[0]
        r.viol("R1:check_locales_inner#DefaultTo", "with locales [en, %s], inherits {fr-CA: fr}, suppress_key_warnings=%s: %s; expected %s (%d of %d cases differ)" % (
            ", ".join(order), sup, checklocales.describe(log) if not isinstance(res, str) else res, checklocales.describe(want), len(bad), len(rows)), file=fn.file, line=fn.line)
    swb = 0
    merges = M.call_blocks(b, r"locale::Locale::merge$")
    for m in merges:
        tt = b.blocks[m]["term"]
        ls, _ = backward_slice(b, op_place(tt["args"][3])["l"])
        r.inst("check_locales_inner#merge", "locale.merge(.., default_to, ..) receives the chosen value (its argument is what was evaluated above)", cfg=cfg)
    return r


def r2_recording(ctx, prog):
    r = Rule("C03.R2", "null / absent values record (locale -> default_to); whole subkey groups too",
             "the per-key map is the only carrier of fallback information to the generators", floor=5)
    fn = ctx.ast.fn(PV, "merge", impl_self="ParsedValue")
    if fn is None:
        r.missing("ParsedValue::merge")
        return r
    # abstract evaluation of merge on a null value, against a plain key and against a group of subkeys
    from rules import absint
    from rules.absint import AEval, C as K, CF, A, T, L, UNIT

    def S(x):
        return ("str", x)

    # the default locale's group: a plain key and a nested group (every key of it must be pre-filled, nested groups included)
    DL = CF("Locale", keys=L(T(S("h"), K("Subkeys", K("Some", A("nested-group")))), T(S("x"), A("vx")), T(S("y"), A("vy"))), name=S("grp"), top_locale_name=S("en"))
    KEYS = CF("BuildersKeysInner", **{"0": L(T(S("h"), CF("Subkeys", locales=A("NESTED-LOCALES"), keys=A("NESTED-KEYS"))), T(S("x"), CF("Value", defaults=A("dx"), value=A("vx"))),
                                             T(S("y"), CF("Value", defaults=A("dy"), value=A("vy"))))})
    LOCALES = L(DL)

    def run_null(keys):
        log = []
        dl = DL
        funcs = {k: v for k, v in absint.file_funcs(ctx.ast, PV, impl_self="ParsedValue").items() if k not in ("merge", "reduce")}
        ev = AEval(funcs=funcs, builtins={
            "push": lambda rv, a: (log.append(("push", rv, tuple(a))), UNIT)[1],
            "merge": lambda rv, a: (log.append(("merge", rv, tuple(a))), K("Ok", UNIT))[1],
            "reduce": lambda rv, a: UNIT, "unwrap_at": lambda rv, a: rv[2][0],
            "get_key": lambda rv, a: A("get_key(%s)" % absint.fmt(rv))})
        v = ev.run_fn(fn, [K("Default"), keys, S("fr"), A("DT"), A("kp"), A("strings"), A("warnings")])
        after = (getattr(ev, "last_env", None) or {}).get(fn.params()[1] if len(fn.params()) > 1 else "keys")
        if after is not None and after[0] == "ctor" and after[1] == "Subkeys":
            got_l = absint.fields_of(after).get("locales")
            if got_l is not None and got_l[0] == "list" and got_l[1][:1] == (DL,) and len(got_l[1]) == 2:
                log.append(("push", LOCALES, (got_l[1][1],)))         # the group's locale list gained one locale
        return v, log

    def shown(v, log):
        return "%s; %s" % (v if isinstance(v, str) else absint.fmt(v), [(x[0], absint.fmt(x[1]), [absint.fmt(y) for y in x[2]]) for x in log])
    v, log = run_null(CF("Value", defaults=A("DEFAULTS"), value=A("VAL")))
    if v == K("Ok", UNIT) and log == [("push", A("DEFAULTS"), (S("fr"), A("get_key(DT)")))]:
        r.inst("ParsedValue::merge#value", "null against a plain key: defaults.push(top_locale, default_to.get_key()) and nothing else")
    else:
        r.viol("R2:ParsedValue::merge#value", "a null value no longer records (locale -> default_to) on the key: %s" % shown(v, log), file=fn.file, line=fn.line)
    v, log = run_null(CF("Subkeys", locales=LOCALES, keys=KEYS))
    dummy = log[0][1] if log else None
    fields = absint.fields_of(dummy) if dummy and dummy[0] == "ctor" else {}
    if fields.get("keys") is not None and fields["keys"][0] == "list" and sorted(fields["keys"][1]) == sorted([T(S("h"), K("Default")), T(S("x"), K("Default")), T(S("y"), K("Default"))]) and fields.get("top_locale_name") == S("fr"):
        r.inst("ParsedValue::merge#subkeys-dummy", "null against a group: a locale with every key of the default group (plain keys and nested groups) set to null, named after the top locale")
    else:
        r.viol("R2:ParsedValue::merge#subkeys-dummy", "a null group is not expanded to one null per key of the default group: %s" % shown(v, log), file=fn.file, line=fn.line)
    if v == K("Ok", UNIT) and len(log) == 2 and log[0][0] == "merge" and log[0][2] == (KEYS, S("fr"), A("DT"), A("kp"), A("strings"), A("warnings")) \
            and log[1] == ("push", LOCALES, (dummy,)):
        r.inst("ParsedValue::merge#subkeys-merge", "that locale is merged with the same top_locale / default_to and pushed to the group's locales")
    else:
        r.viol("R2:ParsedValue::merge#subkeys-merge", "the expanded group is not merged with the same default_to and recorded: %s" % shown(v, log), file=fn.file, line=fn.line)
    t = flatp(show(fn.body))
    if re.search(r"\*\w+=ParsedValue::SubkeysNone;", t):
        r.inst("ParsedValue::merge#subkeys-marks", "*this = ParsedValue::Subkeys(None)")
    else:
        r.viol("R2:ParsedValue::merge#subkeys-marks", "merge lost `*this = ParsedValue::Subkeys(None)`", file=PV)
    from rules import localemerge
    rows = localemerge.table(ctx)
    okm = bool(rows) and rows[0][1] is not None
    for (label, res, log, want) in rows:
        got_m = sorted(repr(x) for x in (log or []) if x[0] in ("insert", "merge"))
        want_m = sorted(repr(x) for x in want if x[0] in ("insert", "merge"))
        if res != localemerge.C("Ok", localemerge.UNIT) or got_m != want_m:
            okm = False
            r.viol("R2:Locale::merge#absent:" + label.replace(" ", "_"), "with %s: absent keys are not (all) turned into Default and merged with the same default_to: %s" % (label, [x for x in localemerge.describe(log) if x[0] != "warn"] if log is not None else res), file=PL)
            break
    if okm:
        r.inst("Locale::merge#absent", "an absent key becomes ParsedValue::Default and is merged with the same default_to (%d cases)" % len(rows))
    callers = sorted({bb.name for (bb, i, tt) in prog.callers_of(r"locale::DefaultedLocales::push$")})
    if callers != ["leptos_i18n_parser::parse_locales::parsed_value::ParsedValue::merge"]:
        r.viol("R2:who#DefaultedLocales::push", "DefaultedLocales::push is called from %s" % callers, file=PL)
    else:
        r.inst("who calls DefaultedLocales::push", "ParsedValue::merge only")
    fn = ctx.ast.fn(PL, "push", impl_self="DefaultedLocales")
    ins = []
    v = AEval(funcs={}, builtins={"insert": lambda rv, a: (ins.append((rv, tuple(a))), K("None"))[1]}).run_fn(fn, [CF("DefaultedLocales", mapping=A("MAPPING")), A("k"), A("d")]) if fn else "missing"
    if ins != [(A("MAPPING"), (A("k"), A("d")))] or isinstance(v, str):
        r.viol("R2:DefaultedLocales::push", "push does not record key -> default_to: %s %s" % (v, ins), file=PL)
    else:
        r.inst("DefaultedLocales::push", "mapping.insert(locale, default_to)")
    fn = ctx.ast.fn(PL, "get_key", impl_self="DefaultTo")
    got = [AEval(funcs={}).run_fn(fn, [K(var, A("the-key"))]) for var in ("Explicit", "Implicit")] if fn else []
    if got != [A("the-key"), A("the-key")]:
        r.viol("R2:DefaultTo::get_key", "get_key must return the carried key for both variants: %s" % got, file=PL)
    else:
        r.inst("DefaultTo::get_key", "the carried key for both variants")
    return r


def r3_walk(ctx, prog):
    r = Rule("C03.R3", "chain walk: follow the map, stop at a defining locale, loops end at the default locale; fresh visited set per walk",
             "`the first locale - walking from the locale itself through its inherits chain - that defines the key; when the "
             "chain loops, the default locale`; a visited set carried over from another walk reports loops that are not there",
             floor=4)
    fn = ctx.ast.fn(PL, "default_of_inner", impl_self="DefaultedLocales")
    if fn is None:
        r.missing("DefaultedLocales::default_of_inner")
    else:
        # abstract evaluation (rules/absint.py) on a map with a chain, a two-cycle, a self loop and unmapped locales
        from rules import absint
        from rules.absint import AEval, CF, L, T

        def S(x):
            return ("str", x)
        this = CF("DefaultedLocales", default_locale=S("en"), mapping=L(T(S("fr-CA"), S("fr")), T(S("fr"), S("de")), T(S("it"), S("es")), T(S("es"), S("it")), T(S("pt"), S("pt"))))
        want = {"fr-CA": "de", "fr": "de", "de": "de", "it": "en", "es": "en", "pt": "en", "en": "en", "xx": "xx"}
        got = {}
        for k in want:
            v = AEval(funcs={}).run_fn(fn, [this, S(k), L()])
            got[k] = v[1] if not isinstance(v, str) and v[0] == "str" else (v if isinstance(v, str) else absint.fmt(v))
        stale = AEval(funcs={}).run_fn(fn, [this, S("fr-CA"), L(S("de"))])
        if got == want:
            r.inst("default_of_inner", "chains end at the first locale that is not defaulted (fr-CA -> fr -> de), loops (it <-> es, pt -> pt) end at the default locale, an unmapped locale is its own end; with a stale visited set {de} the walk from fr-CA ends at %s (why callers must pass a fresh set)" % (stale[1] if not isinstance(stale, str) else stale))
        else:
            r.viol("R3:default_of_inner#shape", "chain walk over {fr-CA->fr, fr->de, it->es, es->it, pt->pt} (default en) ends at %s, expected %s" % (got, want), file=PL)
    # freshness of the visited set at every call
    calls = prog.callers_of(r"locale::DefaultedLocales::default_of_inner$")
    if not calls:
        r.missing("callers of default_of_inner")
    for (b, i, term) in calls:
        arg = op_place(term["args"][2])
        ls, defs = backward_slice(b, arg["l"])
        news = M.call_blocks(b, r"std::collections::HashSet::<T>::new$|HashSet::<T, S>::default$|HashSet::<T>::with_capacity$")
        clears = M.call_blocks(b, r"std::collections::HashSet::<T, S, A>::clear$")
        lp = M.loop_of(b, i)
        site = "%s -> default_of_inner" % b.name.split("::")[-1]
        if lp is None:
            ok = any(b.dominates(n, i) for n in news)
            if ok:
                r.inst(site, "visited set created just for this walk")
            else:
                r.viol("R3:%s#fresh" % b.name, "default_of_inner is called with a visited set that is not new", file=b.file, line=term["line"])
        else:
            hdr, nodes = lp
            # on every path from the loop header to the call, the set is cleared (or created) inside the loop
            fresh = [c for c in clears + news if c in nodes]
            if fresh and not b.paths_avoiding(hdr, [i], fresh):
                r.inst(site, "visited.clear() precedes the walk in every iteration")
            else:
                r.viol("R3:%s#stale-visited" % b.name, "inside a loop, default_of_inner is called with a visited set that still holds the locales of a previous walk: a later locale whose chain passes through them is sent to the default locale", file=b.file, line=term["line"])
    # compute() / new() / push() evaluated as a whole (with default_of_inner under them): a DefaultedLocales built by new(default) and
    # filled by push(locale, fallback) files every defaulted locale under the locale its own walk ends at - also when an earlier
    # locale's walk went through the same locales (a visited set that is not reset between walks would send the later one to the default)
    from rules import absint
    from rules.absint import AEval, CF, L, T
    funcs_dl = absint.file_funcs(ctx.ast, PL, impl_self="DefaultedLocales")
    fnew, fpush, fcomp = funcs_dl.get("DefaultedLocales::new"), funcs_dl.get("DefaultedLocales::push"), funcs_dl.get("DefaultedLocales::compute")
    if None in (fnew, fpush, fcomp):
        r.missing("DefaultedLocales::new / push / compute")
    else:
        def S2(x):
            return ("str", x)
        dl = AEval(funcs=funcs_dl).run_fn(fnew, [S2("en")])
        pairs = [("fr", "de"), ("fr-CA", "fr"), ("fr-BE", "fr"), ("it", "es"), ("es", "it"), ("pt", "pt"), ("nl", "en")]
        okp = not isinstance(dl, str)
        for a_, b_ in pairs:
            if not okp:
                break
            ev = AEval(funcs=funcs_dl)
            res = ev.run_fn(fpush, [dl, S2(a_), S2(b_)])
            if isinstance(res, str):
                okp = False
                dl = res
                break
            dl = (getattr(ev, "last_env", None) or {}).get("self", dl)
        got = AEval(funcs=funcs_dl).run_fn(fcomp, [dl]) if okp else dl
        want = {"de": {"fr", "fr-CA", "fr-BE"}, "en": {"it", "es", "pt", "nl"}}
        have = None
        if not isinstance(got, str) and got[0] == "list":
            have = {x[1][0][1]: {y[1] for y in x[1][1][1]} for x in got[1] if x[0] == "tuple"}
        if have == want:
            r.inst("compute", "new(en) + push x7 + compute: {fr, fr-CA, fr-BE} fall back to de (two chains through fr, walked one after the other), the loop it <-> es, the self loop pt and nl -> en fall back to en")
            r.inst("DefaultedLocales::new", "starts empty with the given default locale; push records (locale -> fallback)")
        else:
            r.viol("R3:compute#shape", "after new(en) and push of %s compute() gives %s, expected %s" % (pairs, have if have is not None else (got if isinstance(got, str) else absint.fmt(got)[:200]), want), file=PL)
    mv = prog.body("ParsedValue::make_locale_value")
    if mv is not None:
        ok = False
        for bb in prog.family(mv):
            for i, tt in bb.calls():
                if (callee_name(tt) or "").endswith("DefaultedLocales::new"):
                    ok = True
        fn = ctx.ast.fn(PV, "make_locale_value", impl_self="ParsedValue")
        t = flatp(show(fn.body)) if fn else ""
        if ok and has(t, "defaults:DefaultedLocales::newdefault_locale.clone"):
            r.inst("make_locale_value", "DefaultedLocales::new(default locale of this tree)")
        else:
            r.viol("R3:make_locale_value#default", "DefaultedLocales is not created with the default locale", file=PV)
    return r


def gen_checks(r, where, fn, lets_named=None):
    """in a per-locale generator closure: defaulted arm comes from <computed>.get(&locale.top_locale_name), every key becomes `| Enum::key`"""
    t = flatp(show(fn.body if hasattr(fn, "body") else fn))
    return t


def r4_generators(ctx):
    r = Rule("C03.R4", "generators widen the defining locale's arm with compute()[locale] and skip null locales",
             "the generated `match locale` is where fallback becomes behaviour: a generator that ignores the computed groups "
             "either fails to compile only for projects with defaults or renders another locale's text", floor=8)
    ast = ctx.ast
    from rules import gentext, absint as _absint
    from report import Rule as _Rule
    tmp = _Rule("C03.R4", "arms", "arms", floor=0)
    try:
        arms_ok = gentext.check_locale_arms(ctx, tmp, rid="R4")
    except _absint.Unknown as u:
        arms_ok = False
        r.viol("R4:undecided", "the per-locale generators cannot be interpreted on the current code (%s): not decided on this tree (fail closed)" % str(u)[:300], file=MI)
    r.instances += tmp.instances
    r.violations += tmp.violations
    sites = [
        ("create_locale_type_inner (literals)", ast.fn(ML, "create_locale_type_inner"), "computed_defaults", "defaults.compute"),
    ]
    try:
        disp_ok = gentext.check_display_new(ctx, r, rid="R4")
    except _absint.Unknown as u:
        disp_ok = False
        r.viol("R4:display_impl#undecided", "display_impl cannot be interpreted on the current code (%s): not decided on this tree (fail closed); the structural clause follows" % str(u)[:300], file=MI)
    if not disp_ok:
        sites.append(("Interpolation::display_impl (new_fn)", ast.fn(MI, "display_impl", impl_self="Interpolation"), "defaults", None))
    if not arms_ok:
        sites += [("Interpolation::create_locale_impl", ast.fn(MI, "create_locale_impl", impl_self="Interpolation"), "defaults", None),
                  ("Interpolation::create_locale_string_impl", ast.fn(MI, "create_locale_string_impl", impl_self="Interpolation"), "defaults", None)]
    for name, fn, var, src in sites:
        if fn is None:
            r.missing(name)
            continue
        t = flatp(show(fn.body))
        want = "letdefaulted=%s.get&locale.top_locale_name.map|defaulted_locales|{defaulted_locales.iter.map|key|{quote!|#enum_ident::#key}.collect::<TokenStream>};" % var
        if not has(t, want):
            r.viol("R4:%s#defaulted" % name, "the defaulted-locales alternative is not built from `%s.get(&locale.top_locale_name)` as `| Enum::<key>` for every key" % var, file=fn.file, line=fn.line)
        else:
            r.inst(name + "#defaulted", "%s.get(&locale.top_locale_name) -> `| Enum::k` for each k" % var)
        qs = [flat(tok_text(q["tokens"])) for q in xquotes(fn.body)]
        arms = [q for q in qs if re.match(r"^#enum_ident::#(ident|locale_key|top_locale)(\(#translations_key\))?(#defaulted)?=>", q)]
        missing = [q for q in arms if "#defaulted=>" not in q and "(#translations_key)=>" not in q]
        if not arms or missing:
            r.viol("R4:%s#arm" % name, "a generated arm does not include `#defaulted` (arms: %s)" % [a[:60] for a in (missing or arms)], file=fn.file, line=fn.line)
        else:
            r.inst(name + "#arms", "%d arm template(s), all `Enum::locale #defaulted => ..`" % len(arms))
        if src and ("let%s=%s;" % (var, src)) not in t:
            r.viol("R4:%s#source" % name, "`%s` does not come from %s()" % (var, src), file=fn.file, line=fn.line)
    fn = ast.fn(MI, "new", impl_self="Interpolation")
    if fn is not None:
        t = flatp(show(fn.body))
        if has(t, "letcomputed_defaults=defaults.compute;") and t.count("&computed_defaults") >= 2:
            r.inst("Interpolation::new", "computed_defaults = defaults.compute() handed to the view and the string generators")
        else:
            r.viol("R4:Interpolation::new#compute", "Interpolation::new does not hand defaults.compute() to both generators", file=fn.file, line=fn.line)
        if has(t, "letlocales=locales.iter.filter|locale|{locale.keys.getkey.is_some_and|v|!matches!v,ParsedValue::Default}.collect::<Vec<_>>;"):
            r.inst("Interpolation::new#skip-null", "locales whose value is null are not rendered (their arm is an alternative of the defining locale)")
        else:
            r.viol("R4:Interpolation::new#skip-null", "null locales are no longer filtered out before generation", file=fn.file, line=fn.line)
    fn = ast.fn(ML, "create_locale_type_inner")
    if fn is not None:
        t = flatp(show(fn.body))
        if has(t, "ifmatches!lit,ParsedValue::Default{returnNone;}"):
            r.inst("create_locale_type_inner#skip-null", "literal accessor: null locales produce no arm of their own")
        else:
            r.viol("R4:create_locale_type_inner#skip-null", "literal accessor no longer skips null locales", file=fn.file, line=fn.line)
    return r


def r5_default_never_defaults(ctx):
    r = Rule("C03.R5", "the default locale never takes a value from another locale",
             "a null in the default locale has nothing to fall back to", floor=2)
    fn = ctx.ast.fn(PV, "make_locale_value", impl_self="ParsedValue")
    t = flatp(show(fn.body)) if fn else ""
    if has(t, "ParsedValue::Default=>{ErrError::ExplicitDefaultInDefaultstd::mem::takekey_path.into}"):
        r.inst("make_locale_value#Default", "Err(ExplicitDefaultInDefault(key_path))")
    else:
        r.viol("R5:make_locale_value#Default", "a null in the default locale is no longer rejected", file=PV)
    fn = ctx.ast.fn(PL, "make_builder_keys", impl_self="Locale")
    from rules.c07 import builder_keys_table
    got, want, shown = builder_keys_table(fn) if fn else (None, [], "function not found")
    if got == want:
        r.inst("make_builder_keys", "every key of the default locale goes through make_locale_value (abstract evaluation on keys {a, b, c})")
    else:
        r.viol("R5:make_builder_keys", "keys of the default locale bypass make_locale_value: %s" % (shown,), file=PL)
    return r


def r6_single_fallback(ctx, prog):
    r = Rule("C03.R6", "no second fallback rule",
             "`applied per key, uniformly for every value kind`: any other place that substitutes another locale's value must use the same chain", floor=1)
    mk = prog.body("parse_locales::make_builder_keys")
    reach = False
    if mk is not None:
        for i, t in mk.calls():
            if (callee_name(t) or "").endswith("parse_locales::resolve_foreign_keys"):
                for a in t["args"]:
                    p = op_place(a)
                    if p and M.derives_from_field(mk, prog, p["l"], "cfg_file::ConfigFile", "extensions"):
                        reach = True
    r.inst("resolve_foreign_keys", "receives the inherits table: %s" % reach)
    if not reach:
        r.viol("R6:resolve_foreign_key_inner#fallback-ignores-inherits", "the foreign-key resolver replaces a null target by the default locale's value without consulting `inherits`", file=PV)
    return r


def run(ctx):
    cfgs = ["main"] if ctx.tier == "quick" else ["main", "bare"]
    prog = ctx.mir("main")
    r1 = None
    for cfg in cfgs:
        rr = r1_default_to(ctx, ctx.mir(cfg), cfg)
        if r1 is None:
            r1 = rr
        else:
            r1.instances += rr.instances
            r1.violations += rr.violations
    # the chain is walked per key over the table as configured: the clause of C19.R0 that the configuration loader hands
    # the `inherits` table on entry for entry (decided by rules/c19.py)
    from rules import c19
    from rules.common import borrow
    k0, _ok, _why = c19.r0_config(ctx)
    r7 = borrow(k0, "C03.R7", "the configured `inherits` table reaches the merge unchanged",
                "`walking from the locale itself through its inherits chain ... when the chain ends or loops, the default`: fallback is per key, "
                "so an entry dropped or rewritten when the configuration is loaded (e.g. cycles resolved once) changes which locale defines a key", only=r"inherits", floor=1)
    # `when the chain ends or loops, the default locale's value is used`: the locale a walk ends on is the one every key was built
    # with - the make_builder_keys clause of C07.R3 (the top locale's name, also inside sub-key groups; rules/c07.py)
    from rules import c07
    r8 = borrow(c07.r3_accessors(ctx), "C03.R8", "every key's fallback of last resort is the default locale, also inside sub-key groups",
                "`the rule is applied per key, uniformly for every value kind including whole subkey groups`: the locale returned when a chain ends "
                "or loops is stored per key when the default locale's keys are built; inside a group the Locale at hand is the group, not the locale",
                only=r"make_builder_keys", floor=1)
    # a `$t(key)` whose target is null in its locale resolves along the same chain (walk to the first locale that defines it,
    # default last; chains of several hops, cycles): the resolution clause of C06.R0 (rules/fkeval.py)
    from rules import c06
    k6, _ok6, _why6 = c06.r0_substitution(ctx)
    r9 = borrow(k6, "C03.R9", "a reference to a null key follows the inherits chain hop by hop",
                "`walking from the locale itself through its inherits chain`: the value a reference reads for a null key is the fallback value; a walk that "
                "asks for the parent of the starting locale at every hop leaves the chain after one hop", only=r"resolve_foreign_key_inner", floor=1)
    # `a locale that actually defines the key`: a value that is (or reduces to) the empty string defines it; only null / absent fall back
    # (reduce evaluated on values that reduce to nothing, shared with C01.R3)
    from rules import c01
    r10 = borrow(c01.r3_join(ctx), "C03.R10", "a value that reduces to the empty string still defines its key",
                 "`the first locale in the chain that actually defines the key`: an empty translation is a translation; if reducing `$t(empty)` produced the "
                 "explicit default, the key would silently take the parent locale's text", only=r"reduce", floor=1)
    return [r1, r2_recording(ctx, prog), r3_walk(ctx, prog), r4_generators(ctx), r5_default_never_defaults(ctx), r6_single_fallback(ctx, prog), r7, r8, r9, r10]


MANIFEST_ENTRY = {
    "technique": "static analysis: abstract evaluation (rules/absint.py) of check_locales_inner over every order of the locales, of ParsedValue::merge on null values, of Locale::merge, of make_builder_keys on the Locale of a sub-key group, of DefaultedLocales new / push / compute / default_of_inner as a whole (chains, cycles, self loops, two chains through one locale); of the configuration visitor (every valid `inherits` entry reaches the merge: shared with C19.R0); the per-locale arms of interpolated keys generated and read back (an arm is widened by exactly the locales that fall back to it: rules/gentext.py); MIR provenance of the merge argument and of the inherits table into the foreign-key resolver; templates of the remaining generators in canonical form; the resolution clause of C06.R0 over inherits chains of several hops; reduce evaluated on values that reduce to nothing (the key stays defined); display_impl evaluated for the lazily loading client and its new() arms read back",
    "level_text": "Structural: where the inherits table enters (DefaultTo), where fallbacks are recorded, how the chain is walked (incl. that every walk starts from an empty visited set) and how every generator consumes the result are decided from the code for all projects: table-like functions by exhaustive case analysis over constructor shapes and map shapes, the rest by dominance / provenance. No project is loaded.",
    "level_note": "Trusted: Rust or-pattern semantics. D11 repaired upstream (44c852c). Not decided: concrete chain results.",
}
