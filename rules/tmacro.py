"""The t!/td!/tu! family (leptos_i18n_macro/src/t_macro): `t_macro_inner` is interpreted abstractly (rules/absint.py) on small
argument lists and the code it generates is read back with a scope interpreter for `let` statements: every builder setter
must receive the value the *caller* supplied for that key - also when one argument's value expression names another
argument's key (`a = b, b = a`), which only a simultaneous binding gets right.  Nothing is compiled or run."""
import re

from rules import absint
from rules.absint import AEval, C, CF, L, TOK, Unknown
from rules.gentext import tokenize, tree, split_top, text

TM = "leptos_i18n_macro/src/t_macro/mod.rs"
SETTER = re.compile(r"^(var|comp)_(\w+)$")


def _strip_attrs(items):
    while len(items) >= 2 and items[0] == "#" and isinstance(items[1], tuple) and items[1][0] == "[":
        items = items[2:]
    return items


class Scope:
    def __init__(self):
        self.calls = []        # (setter name, value) in execution order

    def block(self, items, env):
        env = dict(env)
        last = None
        for st in split_top(items, ";"):
            st = _strip_attrs(st)
            if not st:
                continue
            if st[0] == "let":
                if "=" not in st:
                    raise Unknown("let without initialiser in generated code")
                i = st.index("=")
                pat, ex = st[1:i], st[i + 1:]
                if pat and pat[0] == "mut":
                    pat = pat[1:]
                self.bind(pat, self.value(ex, env), env)
                last = None
            else:
                last = self.value(st, env)
        return last

    def bind(self, pat, val, env):
        if len(pat) == 1 and isinstance(pat[0], str):
            env[pat[0]] = val
            return
        if len(pat) == 1 and isinstance(pat[0], tuple) and pat[0][0] == "(":
            names = [p for p in split_top(pat[0][1], ",") if p]
            if val[0] != "tuple" or len(val[1]) != len(names):
                raise Unknown("tuple pattern of %d names bound to %s" % (len(names), val[:1]))
            for n, v in zip(names, val[1]):
                self.bind(n, v, env)
            return
        raise Unknown("pattern `%s` in generated code" % text(pat)[:60])

    def value(self, ex, env):
        ex = _strip_attrs(ex)
        if not ex:
            return ("unit",)
        if len(ex) == 1 and isinstance(ex[0], str):
            if re.match(r"^[A-Za-z_]\w*$", ex[0]):
                return env.get(ex[0], ("caller", ex[0]))
            return ("expr", ex[0])
        if len(ex) == 1 and ex[0][0] == "(":
            parts = split_top(ex[0][1], ",")
            if "," in ex[0][1]:
                return ("tuple", tuple(self.value(p, env) for p in parts if p))
            return self.value(ex[0][1], env)
        if len(ex) == 1 and ex[0][0] == "{":
            v = self.block(ex[0][1], env)
            return v if v is not None else ("unit",)
        # Clone::clone(&x) denotes the same value
        if len(ex) >= 2 and isinstance(ex[-1], tuple) and ex[-1][0] == "(" and ex[-2] == "clone" and all(isinstance(t, str) for t in ex[:-1]) \
                and ex[-1][1][:1] == ["&"] and "." not in ex[:-1]:
            return self.value(ex[-1][1][1:], env)
        if ex[0] == "move" and len(ex) >= 2 and ex[1] == "||":
            return self.value(ex[2:], env)
        if ex[0] == "move" and len(ex) >= 2 and ex[1] == "|":
            # a closure with parameters (a component written inline): opaque, but it must not read a name bound so far
            return ("expr", text(ex))
        # a call chain: record the setters, look inside every other group
        i = 0
        while i < len(ex):
            t = ex[i]
            if t == "." and i + 2 < len(ex) and isinstance(ex[i + 1], str) and SETTER.match(ex[i + 1]) and isinstance(ex[i + 2], tuple) and ex[i + 2][0] == "(":
                self.calls.append((ex[i + 1], self.value([ex[i + 2]], env)))
                i += 3
                continue
            if isinstance(t, tuple):
                if t[0] == "{":
                    self.block(t[1], env)
                elif t[0] == "(":
                    for p in split_top(t[1], ","):
                        if p:
                            self.value(p, env)
            i += 1
        return ("expr", text(ex))


def _fmtv(v):
    if v[0] == "caller":
        return "the caller's `%s`" % v[1]
    if v[0] == "expr":
        return "`%s`" % v[1][:80]
    return str(v)[:80]


ARGLISTS = [
    ("a = b, b = a, c", [("AssignedVar", "a", "b"), ("AssignedVar", "b", "a"), ("Var", "c", "c")]),
    ("<d> = e, <f>, e = d", [("AssignedComp", "d", "e"), ("Comp", "f", "f"), ("AssignedVar", "e", "d")]),
    ("<g> = <Gtag attr />, a, b = g", [("DirectComp", "g", None), ("Var", "a", "a"), ("AssignedVar", "b", "g")]),
    ("x = y", [("AssignedVar", "x", "y")]),
    ("(no arguments list)", None),
]


def _mk(kind, key, val):
    if kind in ("Var", "Comp"):
        return C(kind, TOK(key))
    if kind == "DirectComp":
        return CF("DirectComp", key=TOK(key), comp_name=TOK("Gtag"), attrs=TOK("attr"))
    return CF(kind, key=TOK(key), value=TOK(val))


def check(ctx, r, rid="R8"):
    ast = ctx.ast
    fn = ast.fn(TM, "t_macro_inner")
    if fn is None:
        r.missing("t_macro_inner")
        return
    absint.set_program(ast)
    n = 0
    bad = None
    for label, args in ARGLISTS:
        for out in ("View", "String", "Display"):
            for inp in ("Context", "Untracked", "Locale"):
                for dyn in (False, True):
                    ev = AEval(funcs={})
                    ev.cfg = lambda t, dyn=dyn: dyn
                    inter = C("None") if args is None else C("Some", L(*[_mk(*a) for a in args]))
                    v = ev.run_fn(fn, [CF("ParsedInput", context=TOK("CTX"), keys=TOK("KEYS"), interpolations=inter), C(inp), C(out)])
                    if isinstance(v, str):
                        raise Unknown("%s (t_macro_inner on `%s`, %s/%s)" % (v, label, out, inp))
                    if v[0] != "tok":
                        raise Unknown("t_macro_inner returns %s" % absint.fmt(v)[:80])
                    sc = Scope()
                    sc.value(tree(tokenize(v[1])), {})
                    n += 1
                    want = []
                    for kind, key, val in (args or []):
                        want.append((("comp_" if "Comp" in kind else "var_") + key, ("caller", val) if val is not None else None))
                    got = sc.calls
                    msg = None
                    if [g[0] for g in got] != [w[0] for w in want]:
                        msg = "the setters called are %s, the arguments are %s" % ([g[0] for g in got], [w[0] for w in want])
                    else:
                        for (gn, gv), (_wn, wv) in zip(got, want):
                            if wv is None:
                                if not (gv[0] == "expr" and "Gtag" in gv[1]):
                                    msg = "%s receives %s, the argument is the inline component <Gtag ..>" % (gn, _fmtv(gv))
                            elif gv != wv:
                                msg = "%s receives %s, the argument supplied for it is %s" % (gn, _fmtv(gv), _fmtv(wv))
                            if msg:
                                break
                    if msg and bad is None:
                        bad = "t!(.., %s) [%s, %s%s]: %s" % (label, out, inp, ", dynamic_load client" if dyn else "", msg)
    if bad:
        r.viol("%s:t_macro_inner#own-value" % rid, bad, file=TM, line=fn.line)
    else:
        r.inst("t_macro_inner", "%d generated expansions (5 argument lists incl. `a = b, b = a` and an inline component x 3 output kinds x 3 input kinds x "
               "both cfg branches) read back: every setter var_K / comp_K receives the value the caller supplied for K, once, in order" % n)


def check_selectors(ctx, r, rid="R2"):
    """t_macro_inner evaluated for every (input kind, output kind), with and without arguments: the expansion reads the keys through
    the accessor of its input kind, opens the builder of its output kind and finishes with the build function of the same kind"""
    ast = ctx.ast
    fn = ast.fn(TM, "t_macro_inner")
    if fn is None:
        r.missing("t_macro_inner")
        return
    absint.set_program(ast)
    getters = {"Context": "leptos_i18n :: I18nContext :: get_keys ( CTX ) . KEYS ( )", "Untracked": "leptos_i18n :: I18nContext :: get_keys_untracked ( CTX ) . KEYS ( )",
               "Locale": "leptos_i18n :: Locale :: get_keys ( CTX ) . KEYS ( )"}
    fns = {"View": ("builder", "build ( ) . into_view"), "String": ("display_builder", "build_string"), "Display": ("display_builder", "build_display")}
    norm = lambda t: " ".join(tokenize(t))  # noqa: E731
    for out, (bf, fin) in fns.items():
        bad = None
        for inp, getter in getters.items():
            for args in (None, [("Var", "c", "c")]):
                ev = AEval(funcs={})
                ev.cfg = lambda t: False
                inter = C("None") if args is None else C("Some", L(*[_mk(*a) for a in args]))
                v = ev.run_fn(fn, [CF("ParsedInput", context=TOK("CTX"), keys=TOK("KEYS"), interpolations=inter), C(inp), C(out)])
                if isinstance(v, str) or v[0] != "tok":
                    raise Unknown("%s (t_macro_inner %s/%s)" % (v if isinstance(v, str) else absint.fmt(v)[:60], inp, out))
                txt = norm(v[1])
                key = norm(getter)
                if args is not None and out != "View":
                    key = "leptos_i18n :: __private :: InterpolationStringBuilder :: check ( %s )" % key
                want_open = "let _builder = %s . %s ( ) ;" % (key, norm(bf))
                want_close = "_builder . %s ( )" % norm(fin)
                if want_open not in txt or not re.search(re.escape(want_close) + r"\s*\}", txt) or txt.count("_builder . " + norm(fin)) != 1:
                    bad = bad or "t!(%s input%s) as %s expands to `%s`; expected the builder opened with `%s` and finished with `%s`" % (inp, ", one argument" if args else "", out, txt[:260], want_open, want_close)
        if bad:
            r.viol("%s:t_macro_inner#%s" % (rid, out), bad, file=TM, line=fn.line)
        else:
            r.inst("OutputType::%s" % out, "%s + %s on the keys read through the accessor of each input kind (6 expansions)" % (bf, fin))
    r.inst("t_macro_inner", "accessor of the input kind, builder / build function of the output kind - read off the generated code")
