"""Semantic helpers over the (normalised) syntax tree: facts that stay the same when code is re-expressed.

  nbody(ast, fn)              normal form of a function body (py/canon.py): lets of single-use values inlined, private
                              single-call-site helpers inlined, if-let/match/early-return normalised
  iterations(node)            every place where code is run once per element of a collection, whether written as a `for`
                              loop or as an iterator chain ending in for_each / try_for_each / map / collect ..., with the
                              collection(s) iterated, the adaptors in between and the per-element code
  visits_all(node, roots, call)   each collection matching `roots` is iterated completely (no filtering / truncating /
                              reordering adaptor) and `call` is applied to its elements
  calls(node, name_rx)        (receiver text, [argument texts]) of the calls / method calls matching name_rx
All texts are flat (no whitespace / parentheses)."""
import re

import canon
from astlib import is_node, walk, show, find_all
from rules.common import _flatp

# adaptors that keep every element, in order
COMPLETE = {"iter", "iter_mut", "into_iter", "values", "values_mut", "into_values", "keys", "into_keys", "map", "for_each", "try_for_each",
            "collect", "cloned", "copied", "chain", "enumerate", "by_ref", "flat_map", "flatten", "inspect", "as_slice", "as_mut_slice",
            "as_ref", "as_mut", "borrow", "borrow_mut", "deref", "drain", "extend", "sum", "count", "try_fold", "fold", "unzip", "peekable",
            "map_err", "ok", "unwrap", "expect", "transpose"}
# adaptors that may drop, stop at, or reorder elements
PARTIAL = {"filter", "filter_map", "skip", "take", "take_while", "skip_while", "map_while", "step_by", "find", "find_map", "any", "all",
           "position", "rposition", "nth", "last", "next", "rev", "zip", "scan", "min", "max", "min_by", "max_by", "min_by_key", "max_by_key",
           "chunks", "chunks_exact", "windows", "split_first", "split_last", "first", "get", "dedup", "retain", "truncate", "pop"}
CONSUMERS = {"for_each", "try_for_each", "map", "flat_map", "filter_map", "filter", "all", "any", "find", "find_map", "fold", "try_fold",
             "map_while", "take_while", "skip_while", "inspect", "extend", "position"}

_NB = {}


def nbody(ast, fn):
    key = id(fn.node)
    if key not in _NB:
        helpers = {k: v for k, v in ast.helpers_of(fn.file).items() if v is not fn.node}
        _NB[key] = canon.normalise(fn.body, helpers, top=True)
    return _NB[key]


def ftext(n):
    return _flatp(show(n)) if n is not None else ""


def _chain(expr):
    """(root expression, [method names root-first], [extra roots given to .chain(..)]) of a method-call chain"""
    ms = []
    extra = []
    e = expr
    while is_node(e) and e["k"] in ("MethodCall", "Try", "Ref", "Unary", "Paren"):
        if e["k"] == "MethodCall":
            if e["method"] not in COMPLETE and e["method"] not in PARTIAL and e["method"] not in CONSUMERS:
                break
            ms.append(e["method"])
            if e["method"] in ("chain", "extend", "zip") and e["args"]:
                extra.append(e["args"][0])
            e = e["receiver"]
        else:
            e = e["expr"]
    return e, list(reversed(ms)), extra


def iterations(node):
    out = []
    for n in walk(node):
        if n["k"] == "ForLoop":
            root, ms, extra = _chain(n["iter"])
            out.append({"root": root, "extra": extra, "chain": ms, "body": n["body"], "var": n["pat"], "node": n, "how": "for"})
        elif n["k"] == "MethodCall" and n["method"] in CONSUMERS and n["args"]:
            root, ms, extra = _chain(n["receiver"])
            f = n["args"][-1]
            body = f["body"] if is_node(f) and f["k"] == "Closure" else f
            var = f["inputs"][0] if is_node(f) and f["k"] == "Closure" and f["inputs"] else None
            out.append({"root": root, "extra": extra, "chain": ms + [n["method"]], "body": body, "var": var, "node": n, "how": n["method"]})
        elif n["k"] == "MethodCall" and n["method"] in ("extend",) and n["args"]:
            root, ms, extra = _chain(n["args"][0])
            out.append({"root": root, "extra": extra, "chain": ms, "body": None, "var": None, "node": n, "how": "extend"})
    return out


def visits_all(node, roots, call, forward=True):
    """(ok, why). roots: regexes on the flat text of the collection expression; call: regex that the per-element code
    must match (flat text)."""
    its = iterations(node)
    crx = re.compile(call)
    for rx in roots:
        r = re.compile(rx)
        found = None
        for it in its:
            texts = [ftext(it["root"])] + [ftext(canon_strip(x)) for x in it["extra"]]
            if not any(r.search(t) for t in texts):
                continue
            bad = [m for m in it["chain"] if m in PARTIAL]
            if bad:
                found = (False, "`%s` is iterated through `%s`: elements can be dropped or reordered" % (texts[0], ".".join(it["chain"])))
                continue
            bt = ftext(it["body"]) if it["body"] is not None else ""
            if crx.search(bt):
                found = (True, "%s over %s" % (it["how"], texts[0]))
                break
            found = found or (False, "the per-element code for `%s` does not apply %s" % (texts[0], call))
        if found is None:
            return False, "no iteration over a collection matching %s" % rx
        if not found[0]:
            return found
    return True, "complete forward iteration of %s applying %s" % (roots, call)


def canon_strip(e):
    """`Some(&**x)`, `&x`, `Some(x)`, `once(x)` -> x (a single extra element given to chain)"""
    while is_node(e):
        if e["k"] in ("Ref", "Unary", "Paren"):
            e = e["expr"]
        elif e["k"] == "Call" and len(e["args"]) == 1 and ftext(e["func"]) in ("Some", "std::iter::once", "iter::once", "once", "core::iter::once"):
            e = e["args"][0]
        else:
            break
    return e


def calls(node, name_rx):
    """[(receiver text or None, [argument texts], node)] for calls whose method / last path segment matches name_rx"""
    rx = re.compile(name_rx)
    out = []
    for n in walk(node):
        if n["k"] == "MethodCall" and rx.search(n["method"]):
            out.append((ftext(n["receiver"]), [ftext(a) for a in n["args"]], n))
        elif n["k"] == "Call" and is_node(n["func"]) and n["func"]["k"] == "Path" and rx.search(n["func"]["path"].split("::")[-1]):
            out.append((None, [ftext(a) for a in n["args"]], n))
    return out


def arms_of(node, ctor_prefix):
    """{variant: [arm]} of the first match below node whose patterns mention ctor_prefix (or-patterns expanded)"""
    from astlib import show_pat
    for m in find_all(node, "Match"):
        pats = " ".join(show_pat(a["pat"]) for a in m["arms"])
        if ctor_prefix not in pats:
            continue
        out = {}
        for a in m["arms"]:
            for v in re.findall(re.escape(ctor_prefix) + r"(\w+)", show_pat(a["pat"])):
                out.setdefault(v, []).append(a)
        return m, out
    return None, {}


def arm_body(arm):
    """body of a match arm with the variables its pattern binds renamed after *what they bind*: the field name for a
    struct pattern field, `v<i>` for the i-th element of a tuple pattern - so the text does not depend on the local names"""
    import copy
    ren = {}

    def go(p, pos):
        k = p["k"]
        if k == "PIdent":
            if not p["name"][:1].isupper():
                ren[p["name"]] = pos
            if "sub" in p:
                go(p["sub"], pos)
        elif k == "PStruct":
            for f in p["fields"]:
                go(f["pat"], f["member"])
        elif k in ("PTupleStruct", "PTuple", "PSlice"):
            for i, e in enumerate(p["elems"]):
                go(e, "v%d" % i if pos is None else "%s_%d" % (pos, i))
        elif k in ("PRef", "PType"):
            go(p["pat"], pos)
        elif k == "POr":
            for c in p["cases"]:
                go(c, pos)
    go(arm["pat"], None)
    b = copy.deepcopy(arm["body"])
    for old, new in ren.items():
        if old != new:
            b = canon._subst(b, old, {"k": "Path", "path": new})
    g = arm.get("guard")
    if g is not None:
        g = copy.deepcopy(g)
        for old, new in ren.items():
            if old != new:
                g = canon._subst(g, old, {"k": "Path", "path": new})
    return b, g
