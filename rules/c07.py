"""C07 Key sets are checked against the default locale, with exact diagnostics."""
import re

from report import Rule
from rules.common import xquotes
from mirlib import callee_name, op_const, op_place, backward_slice
import mustlib as M
from astlib import find_all, find_first, show, show_pat, quotes_in, tok_text, method_chain

EXPLANATION = (
    "Static structural analysis (MIR control-flow facts + syntax facts); nothing executed. Decided clauses: (R1) the "
    "decision table of ParsedValue::merge accepts exactly {Default x Subkeys, Default x Value, Subkeys x Subkeys, "
    "Literal x Value, (Bloc|Component|Ranges|Variable|Plurals|ForeignKey) x Value} and everything else is SubKeyMissmatch. "
    "(R2) MissingKey and SurplusKey are constructed only in Locale::merge; MissingKey exactly on the path "
    "Entry::Vacant and DefaultTo::Implicit, before the Default is inserted; the reverse (surplus) comparison loop runs on "
    "every completing path of Locale::merge unless the compile-time suppress_key_warnings switch disables it - no "
    "run-time condition may bypass it - and reports exactly the keys not contained in the default key set; Locale::merge is "
    "never applied to the default locale. (R3) accessors are generated from the default locale's key set only, "
    "partitioned into literal / subkeys / interpolated with no shape handled twice or not at all. (R4) one deprecated "
    "function is generated per warning and each is called once. NOT decided: the exact multiset of warnings of a concrete "
    "project, warning texts."
)
ASSUMPTIONS = ["rustc reports one deprecation warning per call of a #[deprecated] function", "BTreeMap::entry / contains_key semantics"]

PL = "leptos_i18n_parser/src/parse_locales/locale.rs"
PV = "leptos_i18n_parser/src/parse_locales/parsed_value.rs"
ML = "leptos_i18n_macro/src/load_locales/mod.rs"
MW = "leptos_i18n_macro/src/load_locales/warning.rs"


def flat(s):
    return re.sub(r"\s+", "", s)


def r1_table(ctx):
    r = Rule("C07.R1", "ParsedValue::merge decision table",
             "a value kind / key kind pair accepted by mistake makes a subkey group in one locale and a plain value in another "
             "compile (and panic or render garbage) instead of reporting SubKeyMissmatch", floor=6)
    fn = ctx.ast.fn(PV, "merge", impl_self="ParsedValue")
    if fn is None:
        r.missing("ParsedValue::merge")
        return r
    m = None
    for mm in find_all(fn.body, "Match"):
        if mm["scrutinee"]["k"] == "Tuple":
            m = mm
            break
    if m is None:
        r.missing("match (self, keys) in ParsedValue::merge")
        return r
    accepted = set()
    wild = None
    for a in m["arms"]:
        p = a["pat"]
        if p["k"] == "PWild":
            wild = flat(show(a["body"]))
            continue
        if p["k"] != "PTuple" or len(p["elems"]) != 2:
            r.viol("R1:merge#arm", "unrecognised arm pattern %s" % show_pat(p), file=fn.file, line=a["line"])
            continue
        lefts = re.findall(r"ParsedValue::(\w+)", show_pat(p["elems"][0]))
        rights = re.findall(r"LocaleValue::(\w+)", show_pat(p["elems"][1]))
        for l in lefts:
            for rr in rights:
                if (l, rr) in accepted:
                    r.viol("R1:merge#dup-%s-%s" % (l, rr), "pair (%s, %s) is matched by two arms" % (l, rr), file=fn.file, line=a["line"])
                accepted.add((l, rr))
        if a.get("guard"):
            r.viol("R1:merge#guard", "arm %s has a guard: acceptance must depend on the kinds only" % show_pat(p), file=fn.file, line=a["line"])
    want = {("Default", "Subkeys"), ("Default", "Value"), ("Subkeys", "Subkeys"), ("Literal", "Value")} | \
        {(k, "Value") for k in ("Bloc", "Component", "Ranges", "Variable", "Plurals", "ForeignKey")}
    for pair in sorted(want - accepted):
        r.viol("R1:merge#missing-%s-%s" % pair, "pair (%s, %s) is no longer accepted" % pair, file=fn.file, line=m["line"])
    for pair in sorted(accepted - want):
        r.viol("R1:merge#extra-%s-%s" % pair, "pair (%s, %s) is accepted: a subkey group vs value mismatch would go unreported" % pair, file=fn.file, line=m["line"])
    for pair in sorted(accepted & want):
        r.inst("merge(%s, %s)" % pair, "accepted")
    if wild is None or "Err(Error::SubKeyMissmatch{locale:top_locale,key_path:std::mem::take(key_path)}.into())" not in wild:
        r.viol("R1:merge#wildcard", "every other pair must be Err(SubKeyMissmatch{locale, key_path}) (found %s)" % wild, file=fn.file, line=m["line"])
    else:
        r.inst("merge(_, _)", "Err(SubKeyMissmatch { locale: top_locale, key_path })")
    # the enum still has exactly these variants
    e = ctx.ast.enum(PV, "ParsedValue")
    names = [v["name"] for v in e["variants"]] if e else []
    if sorted(names) != sorted(["Default", "ForeignKey", "Ranges", "Literal", "Variable", "Component", "Bloc", "Subkeys", "Plurals"]):
        r.viol("R1:ParsedValue#variants", "ParsedValue variants changed (%s): the decision table must be re-confirmed" % names, file=PV)
    else:
        r.inst("ParsedValue variants", ", ".join(names))
    return r


def r2_diagnostics(ctx, prog, cfg):
    r = Rule("C07.R2", "MissingKey / SurplusKey: who emits them and on which paths",
             "the statement fixes exactly when each diagnostic appears; a run-time shortcut around the reverse comparison, or an "
             "emission outside Locale::merge (e.g. for the default locale), changes the diagnostics for some project shapes only",
             floor=8)
    suppress = "suppress_key_warnings" in prog.features("leptos_i18n_parser")
    # F-WHO
    for variant in ("MissingKey", "SurplusKey"):
        sites = []
        for name, b in prog.bodies.items():
            if b.crate not in ("leptos_i18n_parser", "leptos_i18n_macro", "leptos_i18n_build"):
                continue
            if any(True for _ in b.aggregates("warning::Warning", variant)):
                # (a closure, or a private helper with a single caller, belongs to the function it was extracted from)
                sites.append(M.owner_of(prog, name))
        sites = sorted(set(sites))
        if sites == ["leptos_i18n_parser::parse_locales::locale::Locale::merge"]:
            r.inst("who-may-emit " + variant, "only Locale::merge", cfg=cfg)
        elif not sites and suppress and variant == "SurplusKey":
            r.inst("who-may-emit " + variant, "none (suppress_key_warnings build)", cfg=cfg)
        else:
            r.viol("R2:who#" + variant, "Warning::%s is constructed in %s (must be Locale::merge only)" % (variant, sites or "no function at all"), file=PL)
    b = prog.body("locale::Locale::merge")
    if b is None:
        r.missing("Locale::merge")
        return r
    # --- what Locale::merge does with a missing / present / surplus key: abstract evaluation (rules/localemerge.py)
    from rules import localemerge
    rows = localemerge.table(ctx)
    bad = [(label, res, log, want) for (label, res, log, want) in rows if not (res == localemerge.C("Ok", localemerge.UNIT) and sorted(map(repr, log)) == sorted(map(repr, want)))]
    if not rows or rows[0][1] is None:
        r.missing("Locale::merge (syntax)")
    elif not bad:
        r.inst("Locale::merge#MissingKey: MissingKey only when default_to is Implicit", "%d cases" % len(rows), cfg=cfg)
        r.inst("Locale::merge#MissingKey: every absent key becomes Default and is merged", "holds", cfg=cfg)
        r.inst("Locale::merge#SurplusKey: reverse comparison on every completing path", "every key of the locale that the default key set lacks is reported, whatever the sizes of the two sets", cfg=cfg)
        r.inst("Locale::merge#SurplusKey: polarity", "emitted exactly when the default key set does not contain the key; nothing under suppress_key_warnings", cfg=cfg)
        r.inst("Locale::merge#SurplusKey: every key tested", "holds", cfg=cfg)
    else:
        for (label, res, log, want) in bad[:4]:
            kinds_got = sorted(x[1] for x in log if x[0] == "warn") if log else res
            kinds_want = sorted(x[1] for x in want if x[0] == "warn")
            key = "missing" if kinds_got != kinds_want and "MissingKey" in (kinds_want + (kinds_got if isinstance(kinds_got, list) else [])) and (not isinstance(kinds_got, list) or kinds_got.count("MissingKey") != kinds_want.count("MissingKey")) else ("surplus" if isinstance(kinds_got, list) and kinds_got.count("SurplusKey") != kinds_want.count("SurplusKey") else "merge")
            r.viol("R2:merge#%s:%s" % (key, label.replace(" ", "_")), "with %s Locale::merge reports %s and does %s; expected warnings %s and %s" % (label, kinds_got, [x for x in localemerge.describe(log) if x[0] != "warn"], kinds_want, [x for x in localemerge.describe(want) if x[0] != "warn"]), file=b.file, line=b.line)
    # --- which locales are merged, and as what: abstract evaluation of check_locales_inner (rules/checklocales.py) on
    # [en (default), fr-CA (inherits fr), fr, de] in every order of the last three
    from rules import checklocales, absint
    rows2 = checklocales.table(ctx)
    fnc = ctx.ast.fn(checklocales.PM, "check_locales_inner")
    bad2 = [(order, sup, res, log, want) for (order, sup, res, log, want) in rows2 if res != absint.C("Ok", absint.A("DEFAULT-KEYS")) or log != want]
    if fnc is None:
        r.missing("check_locales_inner")
    elif not bad2:
        r.inst("check_locales_inner", "default locale = first element (make_builder_keys, never merged, no diagnostics); every other locale is merged once, against the default locale's keys", cfg=cfg)
        r.inst("check_locales_inner#implicit-unless-inherits", "a locale without an `inherits` entry is merged with DefaultTo::Implicit(default) (so its absent keys are reported) in all %d orders - independently of the locales processed before it" % (len(rows2) // 2), cfg=cfg)
    else:
        order, sup, res, log, want = bad2[0]
        r.viol("R2:check_locales_inner#default-not-merged", "with locales [en, %s], inherits {fr-CA: fr}, suppress_key_warnings=%s: %s; expected %s" % (
            ", ".join(order), sup, checklocales.describe(log) if not isinstance(res, str) else res, checklocales.describe(want)), file=fnc.file, line=fnc.line)
    # callers of Locale::merge
    callers = sorted({bb.name for (bb, i, t) in prog.callers_of(r"locale::Locale::merge$")})
    want = ["leptos_i18n_parser::parse_locales::check_locales_inner", "leptos_i18n_parser::parse_locales::parsed_value::ParsedValue::merge"]
    if callers != want:
        r.viol("R2:callers#Locale::merge", "Locale::merge is called from %s (expected %s)" % (callers, want), file=PL)
    else:
        r.inst("callers of Locale::merge", ", ".join(c.split("::")[-2] + "::" + c.split("::")[-1] for c in callers), cfg=cfg)
    return r


def _dominated_via(b, side, target, switch_block):
    """target is dominated by `side` (a successor of switch_block)"""
    return b.dominates(side, target)


def _bypass_true_side(b, de, dsw, emit, w):
    implicit = [M.resolve_matches(b, t) for v, t in dsw["targets"] if v == "1"][0]
    return b.paths_avoiding(implicit, [w], emit)


def builder_keys_table(fn):
    """abstract evaluation of Locale::make_builder_keys on a locale with keys {a, b, c}: (entries got, entries wanted, text)"""
    from rules import absint
    from rules.absint import AEval, C, CF, A, T, L, UNIT
    stack = []

    def S(x):
        return ("str", x)
    # the Locale of a sub-key group: `name` is the group's key, `top_locale_name` the locale it belongs to
    this = CF("Locale", keys=L(T(S("a"), A("va")), T(S("b"), A("vb")), T(S("c"), A("vc"))), top_locale_name=S("en"), name=S("group"))
    ev = AEval(funcs={}, builtins={
        "push_key": lambda rv, a: (stack.append(a[0]), UNIT)[1], "pop_key": lambda rv, a: C("Some", stack.pop()) if stack else C("None"),
        "unwrap_at": lambda rv, a: (rv[2][0] if rv[0] == "ctor" and rv[1] in ("Some", "Ok") else rv), "reduce": lambda rv, a: UNIT,
        "make_locale_value": lambda rv, a: C("Ok", A("lv(%s,%s)" % (rv[1], absint.fmt(a[0]))))})
    ev.path_builtins = {"BuildersKeysInner::default": lambda a: C("BuildersKeysInner", L()), "BTreeMap::new": lambda a: L()}
    v = ev.run_fn(fn, [this, A("key_path"), A("strings")])
    got = None
    if not isinstance(v, str) and v[0] == "ctor" and v[1] == "Ok" and v[2] and v[2][0][0] == "ctor" and v[2][0][1] == "BuildersKeysInner":
        inner = v[2][0]
        lst = inner[2][0] if inner[2] else dict(inner[3]).get("0")
        got = sorted((absint.fmt(x[1][0]), absint.fmt(x[1][1])) for x in lst[1]) if lst and lst[0] == "list" else None
    want = [("a", "lv(va,en)"), ("b", "lv(vb,en)"), ("c", "lv(vc,en)")]
    if stack:
        got = None
    return got, want, (got if got is not None else (v if isinstance(v, str) else absint.fmt(v)))


def r3_accessors(ctx):
    r = Rule("C07.R3", "accessors come from the default locale's key set, partitioned by shape",
             "the accessible keys must be exactly the default locale's keys for every locale", floor=5)
    ast = ctx.ast
    fn = ast.fn(ML, "create_locale_type_inner")
    if fn is None:
        r.missing("create_locale_type_inner")
        return r
    lets = {}
    for l in find_all(fn.body, "Let"):
        if l["pat"]["k"] == "PIdent" and "init" in l and l["pat"]["name"] not in lets:
            lets[l["pat"]["name"]] = l
    want = {
        "literal_keys": r"LocaleValue::Value\{value:InterpolOrLit::Lit\(\w+\),defaults:defaults\}",
        "subkeys": r"LocaleValue::Subkeys\{locales:locales,keys:keys\}",
        "builders": r"LocaleValue::Value\{value:InterpolOrLit::Interpol\(\w+\),defaults:defaults\}",
    }
    for name, rx in want.items():
        l = lets.get(name)
        if l is None:
            r.missing("let " + name)
            continue
        base, ch = method_chain(l["init"])
        meths = [m for m, _, _ in ch]
        pats = [flat(show_pat(a["pat"])) for mm in find_all(l["init"], "Match") for a in mm["arms"]]
        some = [p for p in pats if p != "_"]
        wild_none = any(flat(show(a["body"])) == "None" for mm in find_all(l["init"], "Match") for a in mm["arms"] if a["pat"]["k"] == "PWild")
        guards = [flat(show(a["guard"])) for mm in find_all(l["init"], "Match") for a in mm["arms"] if a.get("guard") is not None]
        if guards:
            r.viol("R3:create_locale_type_inner#%s#guard" % name, "`%s` leaves out the keys for which `%s` does not hold: every key of that shape gets its accessor (an empty group too)" % (name, guards[0]), file=fn.file, line=l["line"])
        elif show(base) != "keys" or meths[:2] != ["iter", "filter_map"] or len(some) != 1 or not re.match("^" + rx + "$", some[0]) or not wild_none:
            r.viol("R3:create_locale_type_inner#" + name, "`%s` is not `keys.iter().filter_map(<exactly its shape> => Some, _ => None)`: base %s, methods %s, patterns %s" % (name, show(base), meths, pats), file=fn.file, line=l["line"])
        else:
            r.inst("create_locale_type_inner#" + name, "keys.iter().filter_map over %s" % some[0])
    # who builds a BuildersKeysInner (MIR: construction sites and inserts into its map; an extracted helper counts as its caller)
    prog = ctx.mir("main")
    import mustlib as M2
    ins = set()
    for name, b in prog.bodies.items():
        if b.crate not in ("leptos_i18n_parser", "leptos_i18n_macro", "leptos_i18n_build") or "Default>::default" in name or "Debug>::fmt" in name:
            continue
        built = any(True for _ in b.aggregates("locale::BuildersKeysInner"))
        # the tuple-struct constructor used as a function value (`.map(BuildersKeysInner)`)
        for i2, j2, s2 in b.assigns():
            for o in s2["rv"].get("ops", []):
                c = op_const(o)
                if c and (c.get("fn") or "").endswith("locale::BuildersKeysInner"):
                    built = True
        for i2, t2 in b.calls():
            for o in [t2["func"]] + t2["args"]:
                c = op_const(o)
                if c and (c.get("fn") or "").endswith("locale::BuildersKeysInner"):
                    built = True
        for i2, t2 in b.calls():
            if (callee_name(t2) or "").endswith("BTreeMap::<K, V, A>::insert"):
                rp = op_place(t2["args"][0])
                if rp is not None and M2.derives_from_field(b, prog, rp["l"], "locale::BuildersKeysInner", "0"):
                    built = True
        if built:
            ins.add(M2.owner_of(prog, name).split("parse_locales::")[-1])
    if ins != {"locale::Locale::make_builder_keys"}:
        r.viol("R3:who-builds-BuildersKeysInner", "BuildersKeysInner is filled in %s (expected only Locale::make_builder_keys, i.e. from the default locale)" % sorted(ins), file=PL)
    else:
        r.inst("who fills BuildersKeysInner", "Locale::make_builder_keys only (called on the default locale / default subkeys)")
    fn = ast.fn(PL, "make_builder_keys", impl_self="Locale")
    if fn is not None:
        got, want, shown = builder_keys_table(fn)
        if got == want:
            r.inst("make_builder_keys", "one builder key per key of self.keys, made from that key's own value with the top locale's name as the fallback of last resort (also inside a sub-key group, whose own name is the group's key)")
        else:
            r.viol("R3:make_builder_keys", "for keys {a, b, c} make_builder_keys yields %s (expected one entry per key: %s)" % (shown, want), file=fn.file, line=fn.line)
    return r


def r4_warnings(ctx):
    r = Rule("C07.R4", "one deprecated function per warning, each called once",
             "diagnostics reach the user as deprecation warnings; dropping or duplicating a call changes what the user sees", floor=3)
    ast = ctx.ast
    fn = ast.fn(MW, "generate_warnings")
    if fn is None:
        r.missing("generate_warnings")
        return r
    # symbolic evaluation of the generator on 0 and 3 collected warnings (stable toolchain branch)
    from rules import absint
    from rules.absint import AEval, C, A, L, B, TOK
    funcs = absint.file_funcs(ast, MW)
    for n in (3, 0):
        ws = L(*[A("W%d" % k) for k in range(n)])
        ev = AEval(inputs=[(r'^cfg!notfeature="nightly"$', B(True)), (r'^cfg!feature="nightly"$', B(False))], funcs=funcs,
                   builtins={"into_inner": lambda rv, a, ws=ws: ws, "to_string": lambda rv, a: ("str", "text of %s" % rv[1])})
        ev.totokens = lambda v: ('"%s"' % v[1]) if v[0] == "str" else None
        v = ev.run_fn(fn, [A("warnings")])
        if n == 0:
            if v == C("None"):
                r.inst("generate_warnings (no warning)", "nothing is generated")
            else:
                r.viol("R4:generate_warnings#empty", "without warnings the generator yields %s" % (v if isinstance(v, str) else absint.fmt(v)), file=fn.file, line=fn.line)
            continue
        txt = re.sub(r"\s+", "", v[2][0][1]) if not isinstance(v, str) and v[0] == "ctor" and v[1] == "Some" and v[2] and v[2][0][0] == "tok" else None
        if txt is None:
            r.viol("R4:generate_warnings", "not all collected warnings are passed on: with 3 warnings the generator yields %s" % (v if isinstance(v, str) else absint.fmt(v)), file=fn.file, line=fn.line)
            continue
        fns = re.findall(r'#\[deprecated\(note="(textofW\d)"\)\]fn(w\d+)\(\)\{unimplemented!\(\)\}', txt)
        body = re.sub(r'#\[deprecated\(note="textofW\d"\)\]fnw\d+\(\)\{unimplemented!\(\)\}', "", txt)
        calls = re.findall(r"(w\d+)\(\);", body)
        if fns == [("textofW0", "w0"), ("textofW1", "w1"), ("textofW2", "w2")] and calls == ["w0", "w1", "w2"] and body.startswith("#[allow(unused)]fnwarnings(){"):
            r.inst("generate_warnings_inner", "fn warnings() { one #[deprecated(note = <text of warning i>)] fn w<i> per warning; each called exactly once }")
            r.inst("warning_fn", "#[deprecated(note = <warning text>)] fn w<index>()")
            r.inst("generate_warnings", "all collected warnings are generated")
        else:
            r.viol("R4:generate_warnings_inner", "with 3 warnings the generated item is `%s`: deprecated functions %s, calls %s (expected w0..w2 each defined with its warning's text and called once)" % (txt[:300], fns, calls), file=fn.file, line=fn.line)
    collector(ctx, r, "R4")
    return r


WN = "leptos_i18n_parser/src/parse_locales/warning.rs"


def collector(ctx, r, rid):
    """Warnings::emit_warning / into_inner evaluated (rules/absint.py): every emitted warning is kept, in order - two warnings that
    differ only in one field (the unused form, the key) are two warnings"""
    from rules import absint
    from rules.absint import AEval, C, CF, A, L
    ast = ctx.ast
    emit = ast.fn(WN, "emit_warning", impl_self="Warnings")
    inner = ast.fn(WN, "into_inner", impl_self="Warnings")
    if emit is None or inner is None:
        r.missing("Warnings::emit_warning / into_inner")
        return
    absint.set_program(ast)
    S = lambda x: ("str", x)  # noqa: E731
    ws = [CF("UnusedForm", locale=S("en"), key_path=S("k"), form=C("Few"), rule_type=C("Cardinal")),
          CF("UnusedForm", locale=S("en"), key_path=S("k"), form=C("Many"), rule_type=C("Cardinal")),
          CF("UnusedForm", locale=S("en"), key_path=S("k"), form=C("Many"), rule_type=C("Ordinal")),
          CF("MissingKey", locale=S("fr"), key_path=S("a")), CF("MissingKey", locale=S("fr"), key_path=S("b")), CF("MissingKey", locale=S("de"), key_path=S("a")),
          CF("SurplusKey", locale=S("fr"), key_path=S("a")), CF("NonUnicodePath", locale=S("fr"), namespace=C("None"), path=A("p1")),
          CF("NonUnicodePath", locale=S("fr"), namespace=C("Some", S("ns")), path=A("p1"))]
    this = C("Warnings", L())
    try:
        for w in ws:
            ev = AEval(funcs={})
            v = ev.run_fn(emit, [this, w])
            if isinstance(v, str):
                raise absint.Unknown(v)
            this = (getattr(ev, "last_env", None) or {}).get("self", this)
        got = AEval(funcs={}).run_fn(inner, [this])
        if isinstance(got, str):
            raise absint.Unknown(got)
    except absint.Unknown as u:
        r.viol("%s:Warnings#undecided" % rid, "the warning collector cannot be interpreted on the current code (%s): not decided (fail closed)" % str(u)[:200], file=WN, line=emit.line)
        return
    if got == L(*ws):
        r.inst("Warnings::emit_warning / into_inner", "%d warnings differing in one field each (form, rule type, key, locale, namespace): all kept, in the order emitted" % len(ws))
    else:
        lost = [absint.fmt(w) for w in ws if got[0] != "list" or w not in got[1]]
        r.viol("%s:Warnings#kept" % rid, "of %d emitted warnings the collector hands on %s; lost: %s" % (len(ws), len(got[1]) if got[0] == "list" else absint.fmt(got)[:80], lost[:3]), file=WN, line=emit.line)


PVF = "leptos_i18n_parser/src/parse_locales/parsed_value.rs"


def r6_value_kinds(ctx):
    """the serde visitor of a translation value, callback by callback (rules/absint.py): what kind of ParsedValue each JSON / YAML
    kind becomes.  The key-set comparison sees a group only if it arrives as Subkeys - an empty `{}` included - and sees `null` as
    the explicit default"""
    from rules import absint
    from rules.absint import AEval, C, CF, A, L, I, B as _B
    r = Rule("C07.R6", "each kind of file value becomes its own kind of parsed value: a map is a sub-key group (also an empty one), null is the explicit default",
             "`a key is reported missing / surplus by comparing the key sets`, `an explicit null silences the report`: a `{}` read as null is never compared "
             "with the default locale's group (no missing keys, no sub-key mismatch); a null read as anything else is reported", floor=9)
    ast = ctx.ast
    absint.set_program(ast)
    cbs = {f.name: f for f in ast.fns if f.file.endswith(PVF) and not f.is_test() and f.body is not None and "ParsedValueSeed" in (f.impl_self or "") and "Visitor" in (f.impl_trait or "")}
    S = lambda x: ("str", x)  # noqa: E731

    def seed(in_range):
        return CF("ParsedValueSeed", top_locale_name=A("locale"), in_range=_B(in_range), key_path=A("key_path"), key=A("key"), foreign_keys_paths=A("fkp"))

    def run1(name, arg, in_range=False, des=None):
        ev = AEval(funcs={})
        ev.opaque_paths = re.compile(r"Error::custom$|Error::invalid_type$|Error::invalid_value$|MapAccessDeserializer::new$|Unexpected::\w+$")
        if des is not None:
            ev.builtins["deserialize"] = lambda rv, a: des
        v = ev.run_fn(cbs[name], [seed(in_range)] + ([arg] if arg is not None else []))
        if isinstance(v, str):
            raise absint.Unknown("%s (visitor callback %s)" % (v, name))
        return v
    empty = CF("Locale", name=A("key"), top_locale_name=A("locale"), keys=L(), strings=L(), top_locale_string_count=I(0))
    full = CF("Locale", name=A("key"), top_locale_name=A("locale"), keys=L(absint.T(A("k"), A("v"))), strings=L(), top_locale_string_count=I(0))
    table = [("visit_map", "a map with keys", A("map"), C("Ok", full), C("Ok", C("Subkeys", C("Some", full)))),
             ("visit_map", "an empty map `{}`", A("map"), C("Ok", empty), C("Ok", C("Subkeys", C("Some", empty)))),
             ("visit_map", "a map that fails to load", A("map"), C("Err", A("e")), C("Err", A("e"))),
             ("visit_unit", "null", None, None, C("Ok", C("Default"))),
             ("visit_bool", "true", _B(True), None, C("Ok", C("Literal", C("Bool", _B(True))))),
             ("visit_i64", "-3", I(-3), None, C("Ok", C("Literal", C("Signed", I(-3))))),
             ("visit_u64", "7", I(7), None, C("Ok", C("Literal", C("Unsigned", I(7))))),
             ("visit_u64", "0", I(0), None, C("Ok", C("Literal", C("Unsigned", I(0))))),
             # a number written with a fraction or an exponent stays the float it is (3.0 is not 3: it renders through f64's Display)
             ("visit_f64", "2.5", A("float:2.5"), None, C("Ok", C("Literal", C("Float", A("float:2.5"))))),
             ("visit_f64", "3.0", A("float:3"), None, C("Ok", C("Literal", C("Float", A("float:3"))))),
             ("visit_f64", "1e20", A("float:1e20"), None, C("Ok", C("Literal", C("Float", A("float:1e20")))))]
    try:
        for name, label, arg, des, want in table:
            if name not in cbs:
                r.missing("ParsedValueSeed::" + name)
                continue
            got = run1(name, arg, des=des)
            if got == want:
                r.inst("ParsedValueSeed::%s(%s)" % (name, label), absint.fmt(want)[:100])
            else:
                r.viol("R6:ParsedValueSeed::%s#%s" % (name, label.split()[0] if name != "visit_map" else label), "%s is read as %s, expected %s" % (label, absint.fmt(got)[:160], absint.fmt(want)[:160]), file=PVF, line=cbs[name].line)
        for name in ("visit_map", "visit_unit"):
            if name in cbs:
                got = run1(name, A("map") if name == "visit_map" else None, in_range=True, des=C("Ok", full))
                if got[0] == "ctor" and got[1] == "Err":
                    r.inst("ParsedValueSeed::%s in a range branch" % name, "rejected")
                else:
                    r.viol("R6:ParsedValueSeed::%s#in-range" % name, "inside a range branch it gives %s, expected an error" % absint.fmt(got)[:120], file=PVF, line=cbs[name].line)
    except absint.Unknown as u:
        r.viol("R6:undecided", "the value visitor cannot be interpreted on the current code (%s): not decided on this tree (fail closed)" % str(u)[:300], file=PVF)
    return r


def run(ctx):
    rules = [r1_table(ctx)]
    cfgs = ["main"] if ctx.tier == "quick" else ["main", "bare"]
    r2 = None
    for cfg in cfgs:
        rr = r2_diagnostics(ctx, ctx.mir(cfg), cfg)
        if r2 is None:
            r2 = rr
        else:
            r2.instances += rr.instances
            r2.violations += rr.violations
    rules.append(r2)
    rules.append(r3_accessors(ctx))
    rules.append(r4_warnings(ctx))
    rules.append(r6_value_kinds(ctx))
    # `an inherits entry silences the missing report`: whether a locale has an entry is read from the table the configuration
    # loader hands on - the clause of C19.R0 that every valid entry (also one naming the default locale) is kept
    from rules import c19
    from rules.common import borrow
    k0, _ok, _why = c19.r0_config(ctx)
    rules.append(borrow(k0, "C07.R5", "every configured `inherits` entry reaches the key check",
                        "`an explicit null or an inherits entry silences the missing report`: an entry dropped while the configuration is "
                        "loaded (e.g. one that names the default locale) turns its locale back into one that reports every absent key",
                        only=r"inherits", floor=1))
    # `the default locale's keys define the set`: the key set is that of the first locale of the loaded list - the clause of C19.R0
    # that the default locale comes first (also when `locales` did not list it)
    rules.append(borrow(k0, "C07.R7", "the default locale is the first of the loaded list, the one whose keys define the set",
                        "`keys are compared with the default locale's`: the comparison takes the first locale as the reference; a default "
                        "locale appended last makes another locale's keys the reference and the default one gets the diagnostics",
                        only=r"ConfigFile::new", floor=1))
    # `an explicit null silences the report` for a whole group: the null group is expanded to one null per key of the default
    # group - nested groups included - before it is compared (ParsedValue::merge evaluated, shared with C03.R2)
    from rules import c03
    rules.append(borrow(c03.r2_recording(ctx, ctx.mir("main")), "C07.R8", "a null (or absent) group is compared as a group whose every key is null",
                        "`an explicit null silences the missing report`: if the stand-in for a null group lacks some of the default group's keys "
                        "(e.g. its nested groups) those are reported missing although the whole group was explicitly defaulted", only=r"ParsedValue::merge#subkeys", floor=2))
    return rules


MANIFEST_ENTRY = {
    "technique": "static analysis: abstract evaluation (rules/absint.py) of Locale::merge (missing / surplus / present keys under each feasible default_to, on the Locale of a sub-key group), of check_locales_inner over every locale order, of make_builder_keys and of the warning generator; the inherits-table clause of C19.R0 (every configured entry reaches the key check); MIR who-may-emit / who-builds checks; abstract evaluation of the value visitor callback by callback (a map is a group, also an empty one; null is the explicit default), of Warnings::emit_warning / into_inner, and of ParsedValue::merge of a null against a group with nested groups; the default-first clause of C19.R0; visit_f64 in the value-kind table (f64 model of the evaluator)",
    "level_text": "Structural / finite case analysis: MissingKey exactly for absent keys under an implicit fallback, SurplusKey exactly for keys the default set lacks (whatever the sizes of the sets) unless suppressed, accessors exactly from the default locale's key set, one deprecated function per warning - decided by evaluating the source over the shapes it can distinguish, plus who-may-emit on MIR. Does not count warnings for a concrete project.",
    "level_note": "Trusted: BTreeMap semantics, rustc deprecation warnings. Not decided: exact warning multiset for a concrete project.",
}
