"""Symbolic evaluation of the two plural code generators (macro crate, load_locales/plurals.rs) on one plural with
forms {zero, one, few}, `other`, ordinal rule type: shared by C05.R4 (what is generated) and C02.R1 (both back-ends
generate the same selection)."""
import re

from rules import absint
from rules.absint import AEval, C, CF, A, T, L, TOK

MP = "leptos_i18n_macro/src/load_locales/plurals.rs"
_CACHE = {}


def evaluate(ast):
    """{generator name: (Fn, whitespace-free token text or None, raw value)}"""
    if id(ast) in _CACHE:
        return _CACHE[id(ast)]
    mfuncs = absint.file_funcs(ast, MP)
    cat_fn = ast.fn(MP, "to_token_stream", impl_self="PluralForm")
    rt_fns = [f for f in ast.fns_named(MP, "to_token_stream") if f.impl_self and "PluralRuleType" in f.impl_self]

    def totokens(v):
        if v[0] == "ctor" and v[1] in ("Zero", "One", "Two", "Few", "Many", "Other") and not v[2] and cat_fn is not None:
            t = AEval(funcs={}).run_fn(cat_fn, [v])
            return t[1] if not isinstance(t, str) and t[0] == "tok" else None
        if v[0] == "ctor" and v[1] in ("Cardinal", "Ordinal") and rt_fns:
            t = AEval(funcs={}).run_fn(rt_fns[0], [v])
            return t[1] if not isinstance(t, str) and t[0] == "tok" else None
        if v[0] == "atom":
            return "<%s>" % v[1]
        return None
    this = CF("Plurals", forms=L(T(C("Zero"), A("vz")), T(C("One"), A("vo")), T(C("Few"), A("vf"))), other=A("vother"), rule_type=C("Ordinal"), count_key=A("ck"))
    out = {}
    for name in ("as_string_impl", "to_token_stream"):
        cands = [f for f in ast.fns_named(MP, name) if f.impl_self is None]
        fn = cands[0] if cands else None
        if fn is None:
            out[name] = (None, None, None)
            continue
        ev = AEval(funcs={k: v for k, v in mfuncs.items() if k not in ("as_string_impl", "to_token_stream", "new", "from")})
        ev.totokens = totokens
        ev.path_builtins = {
            "parsed_value::as_string_impl": lambda a: TOK("S%s" % totokens(a[0])), "parsed_value::to_token_stream": lambda a: TOK("V%s" % totokens(a[0])),
            "Key::new": lambda a: C("Some", TOK("LOCALE")), "EitherOfWrapper::new": lambda a: CF("Either", n=a[0]), "KeyPath::new": lambda a: A("kp"),
            "PluralForm::from": lambda a: a[0], "PluralRuleType::from": lambda a: a[0],
        }
        ev.builtins = {"unwrap_at": lambda rv, a: (rv[2][0] if rv[0] == "ctor" and rv[1] in ("Some", "Ok") else rv),
                       "wrap": lambda rv, a: TOK("W%s/%s[%s]" % (a[0][1], dict(rv[3])["n"][1], a[1][1])), "is_interpol": lambda rv, a: C("None")}
        args = [this, A("ck"), A("strings_count")] if name == "as_string_impl" else [this, A("strings_count")]
        v = ev.run_fn(fn, args)
        txt = re.sub(r"\s+", "", v[1]) if not isinstance(v, str) and v[0] == "tok" else None
        out[name] = (fn, txt, v if isinstance(v, str) else absint.fmt(v))
    _CACHE[id(ast)] = out
    return out


def skeleton(txt):
    """(rule type tokens, [(category tokens, value name)], fallback value name) of a generated selector, with the
    back-end specific wrapping removed"""
    if txt is None:
        return None
    m = re.search(r"get_plural_rules\(\*?LOCALE,([^)]*)\)", txt)
    arms = re.findall(r"([\w:]+)=>\{(?:W\d+/\d+\[)?[SV]<(\w+)>\]?\}", txt)
    fb = re.search(r"_=>(?:W\d+/\d+\[)?[SV]<(\w+)>", txt)
    cnt = re.search(r"category_for\((?:core::clone::Clone::clone\()?<(\w+)>", txt)
    return (m.group(1) if m else None, arms, fb.group(1) if fb else None, cnt.group(1) if cnt else None)
