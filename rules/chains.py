"""Priority chains: read, from the syntax tree, the order in which an Option-valued expression consults its sources.

`a.or(b).unwrap_or(c)`, `match a { Some(x) => x, None => b }`, `if let Some(x) = a { x } else { b }`,
`let t = a.or(b); t.unwrap_or_else(|| c)` ... all denote the chain [a, b, c]: the first source that is `Some` wins.
`cond.then(f).flatten()` and `if cond { f() } else { None }` denote the guarded source `cond?f`.
`if c { A } else { B }` splits into two cases. The result is a list of cases (conditions, [source texts]); source texts
are canonical (local names and closure parameters renamed positionally, let-bound locals replaced by their
definition, function parameters written `param<i>`), so the chain is invariant under the rewrites listed in py/canon.py
and under re-association of the combinators."""
import copy

import canon
from astlib import is_node, walk
from rules.common import _flatp


def _is_path(n, name=None):
    return is_node(n) and n["k"] == "Path" and not n.get("qself") and (name is None or n["path"] == name)


class Env:
    def __init__(self, fn_node, helpers=None):
        self.vars = {}
        self.binders = set()
        self.helpers = helpers or {}
        if fn_node is not None:
            for i, inp in enumerate(fn_node.get("sig", {}).get("inputs", [])):
                p = inp.get("pat") or {}
                if p.get("k") == "PIdent" and p["name"] != "self":
                    self.vars[p["name"]] = {"k": "Path", "path": "param%d" % i}

    def child(self):
        e = Env(None, self.helpers)
        e.vars = dict(self.vars)
        e.binders = self.binders
        return e

    def subst(self, e):
        """capture-aware substitution of the known locals: a name re-bound inside `e` (let, closure parameter, match
        arm, for pattern) is left alone from that binding on"""
        def names(p):
            return [y["name"] for y in walk(p) if y["k"] == "PIdent"]

        def f(x, vs):
            if not is_node(x):
                return x
            k = x["k"]
            if _is_path(x) and x["path"] in vs:
                return copy.deepcopy(vs[x["path"]])
            if k == "Block":
                cur = dict(vs)
                out = []
                for st in x["stmts"]:
                    if st["k"] == "Let":
                        st = dict(st)
                        if "init" in st:
                            st["init"] = f(st["init"], cur)
                        if "else" in st:
                            st["else"] = f(st["else"], cur)
                        for nm in names(st["pat"]):
                            cur.pop(nm, None)
                        out.append(st)
                    else:
                        out.append(f(st, cur))
                x = dict(x)
                x["stmts"] = out
                return x
            if k == "Closure":
                cur = dict(vs)
                for p in x["inputs"]:
                    for nm in names(p):
                        cur.pop(nm, None)
                x = dict(x)
                x["body"] = f(x["body"], cur)
                return x
            if k == "Match":
                x = dict(x)
                x["scrutinee"] = f(x["scrutinee"], vs)
                arms = []
                for a in x["arms"]:
                    cur = dict(vs)
                    for nm in names(a["pat"]):
                        cur.pop(nm, None)
                    a = dict(a)
                    if a.get("guard"):
                        a["guard"] = f(a["guard"], cur)
                    a["body"] = f(a["body"], cur)
                    arms.append(a)
                x["arms"] = arms
                return x
            if k == "ForLoop":
                x = dict(x)
                x["iter"] = f(x["iter"], vs)
                cur = dict(vs)
                for nm in names(x["pat"]):
                    cur.pop(nm, None)
                x["body"] = f(x["body"], cur)
                return x
            if k == "Macro" and "tokens" in x:
                return x
            return canon._map_children(dict(x), lambda c: f(c, vs))
        return f(copy.deepcopy(e), self.vars) if is_node(e) else e

    def bind_let(self, st):
        init = self.subst(st["init"]) if "init" in st else None
        pat = st["pat"]
        if pat["k"] == "PType":
            pat = pat["pat"]
        if init is None:
            return
        if pat["k"] == "PIdent":
            self.vars[pat["name"]] = init
        elif pat["k"] == "PTuple":
            for i, p in enumerate(pat["elems"]):
                if p["k"] == "PIdent":
                    self.vars[p["name"]] = {"k": "Field", "base": init, "member": str(i)}

    def text(self, e):
        e = self.subst(e)
        b = set()
        for x in walk(e):
            if x["k"] == "PIdent" and not x["name"][:1].isupper():
                b.add(x["name"])
        return canon.ctext(e, b)


def _closure_body(a):
    if is_node(a) and a["k"] == "Closure":
        return a["body"]
    return None


def _is_none(e):
    return _is_path(e, "None") or (is_node(e) and e["k"] == "Block" and len(e["stmts"]) == 1 and e["stmts"][0]["k"] == "ExprStmt" and _is_path(e["stmts"][0]["expr"], "None"))


def _unblock(e):
    while is_node(e) and e["k"] == "Block" and len(e["stmts"]) == 1 and e["stmts"][0]["k"] == "ExprStmt" and not e["stmts"][0].get("semi"):
        e = e["stmts"][0]["expr"]
    return e


def cases(e, env, depth=0):
    """[(conditions, [sources])]"""
    if depth > 40:
        return [((), [env.text(e)])]
    e = _unblock(e)
    if _is_path(e) and e["path"] in env.vars:
        return cases(env.vars[e["path"]], env, depth + 1)
    if _is_none(e):
        return [((), [])]
    k = e["k"] if is_node(e) else None

    def seq(a, b):
        out = []
        for (c1, s1) in a:
            for (c2, s2) in b:
                out.append((tuple(c1) + tuple(c2), list(s1) + list(s2)))
        return out
    if k == "Block":
        env2 = env.child()
        stmts = e["stmts"]
        for st in stmts[:-1]:
            if st["k"] == "Let":
                env2.bind_let(st)
        last = stmts[-1] if stmts else None
        if last is not None and last["k"] == "ExprStmt" and not last.get("semi"):
            return cases(last["expr"], env2, depth + 1)
        return [((), [env.text(e)])]
    if k == "MethodCall":
        m = e["method"]
        r = e["receiver"]
        a = e["args"]
        if m == "or" and len(a) == 1:
            return seq(cases(r, env, depth + 1), cases(a[0], env, depth + 1))
        if m in ("or_else", "unwrap_or_else") and len(a) == 1 and _closure_body(a[0]) is not None:
            return seq(cases(r, env, depth + 1), cases(_closure_body(a[0]), env, depth + 1))
        if m == "unwrap_or" and len(a) == 1:
            return seq(cases(r, env, depth + 1), cases(a[0], env, depth + 1))
        if m == "unwrap_or_default" and not a:
            return seq(cases(r, env, depth + 1), [((), ["<default>"])])
        if m == "flatten" and not a:
            return cases(r, env, depth + 1)
        if m in ("then", "then_some") and len(a) == 1:
            f = a[0]
            body = _closure_body(f)
            src = env.text(body) if body is not None else _flatp(env.text(f))
            return [((), ["%s?%s" % (env.text(r), src)])]
    if k == "Match" and len(e["arms"]) == 2:
        a0, a1 = e["arms"]
        p0 = a0["pat"]
        if p0["k"] == "PTupleStruct" and p0["path"] in ("Some", "Ok") and len(p0["elems"]) == 1 and p0["elems"][0]["k"] == "PIdent" and a1["pat"]["k"] == "PWild":
            v = p0["elems"][0]["name"]
            b0 = _unblock(a0["body"])
            ident = _is_path(b0, v) or (is_node(b0) and b0["k"] == "Call" and _is_path(b0["func"], "Some") and len(b0["args"]) == 1 and _is_path(b0["args"][0], v))
            if ident:
                return seq(cases(e["scrutinee"], env, depth + 1), cases(a1["body"], env, depth + 1))
        if p0["k"] == "PIdent" and p0["name"] == "None" and a1["pat"]["k"] == "PWild":
            c = "%s is None" % env.text(e["scrutinee"])
            return [((c,) + cc, s) for cc, s in cases(a0["body"], env, depth + 1)] + [(("not " + c,) + cc, s) for cc, s in cases(a1["body"], env, depth + 1)]
    if k == "If" and e.get("else") is not None and not (is_node(e["cond"]) and e["cond"]["k"] == "LetExpr"):
        cond = env.subst(e["cond"])
        c = env.text(e["cond"])
        if is_node(cond) and cond["k"] == "MethodCall" and not cond["args"] and cond["method"] in ("is_none", "is_some"):
            c0 = "%s is None" % env.text(cond["receiver"])
            c = c0 if cond["method"] == "is_none" else "not " + c0
        if c.startswith("not not "):
            c = c[8:]
        if _is_none(e["else"]):
            return [((), ["%s?%s" % (c, s) for cc, ss in cases(e["then"], env, depth + 1) for s in ss])]
        nc = c[4:] if c.startswith("not ") else "not " + c
        return [((c,) + cc, s) for cc, s in cases(e["then"], env, depth + 1)] + [((nc,) + cc, s) for cc, s in cases(e["else"], env, depth + 1)]
    return [((), [env.text(e)])]


def fn_env(ast, fn, keep=()):
    """environment of a function: parameters, then the `let`s of its top-level block. `keep`: helper names that must
    stay calls (not be inlined) because the rule looks for the call itself"""
    helpers = {k: v for k, v in ast.helpers_of(fn.file).items() if v is not fn.node and k not in keep}
    body = canon.normalise(fn.body, helpers, top=True)
    env = Env(fn.node, helpers)
    return body, env
