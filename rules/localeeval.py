"""C15: where the initial locale of a context comes from - `init_i18n_context_with_options`, `init_subcontext_with_options`,
`fetch_locale` (+ its per-configuration helpers, `signal_once_then` / `signal_maybe_once_then`, `get_locale_from_html`) and
`resolve_locale`, interpreted abstractly (rules/absint.py) over a small model of the reactive values they touch:

  * a signal is a value that holds its content; a `Memo` holds its closure, and reading it runs the closure with `None` the first
    time and `Some(previous value)` afterwards (two phases are observed: the first value, and the value after the inputs moved on);
  * the cookie, the `Accept-Language` / `navigator.languages` negotiation result (`L::find_locale`), the `<html lang>` attribute and
    the parent context are inputs of the model; `cfg!(feature = ..)` is an oracle set per configuration.

The expected values are written from the statement: cookie, else (hydrate: the server's choice in `<html lang>` first) the
negotiated locale; for a sub-context cookie, explicit initial locale, parent, then the same resolution.  Nothing is compiled or run."""
import re

from rules import absint
from rules.absint import AEval, A, B, C, CF, L, T, UNIT, Unknown

CTX = "leptos_i18n/src/context.rs"
FL = "leptos_i18n/src/fetch_locale.rs"
LOCALES = ("en", "fr", "de")


def S(x):
    return ("str", x)


class World:
    def __init__(self, cfg, cookie, html, parent, accepted=("ACC", "ACC2"), initial=(None, None), cookie_feature=True):
        self.cfg, self.cookie, self.html, self.parent, self.accepted, self.initial, self.cookie_feature = cfg, cookie, html, parent, accepted, initial, cookie_feature
        self.phase = 0
        self.cookies_read = []
        self.memo_cache = {}

    def opt(self, v):
        return C("None") if v is None else C("Some", S(v))


def make_eval(ctx, w):
    ev = AEval(funcs={})

    def cfg(t):
        feats = set(re.findall(r'feature="(\w+)"', t))
        if t.replace(" ", "").startswith("not"):
            return not all(f in w.cfg for f in feats)
        return all(f in w.cfg or (f == "cookie" and w.cookie_feature) for f in feats)
    ev.cfg = cfg
    ev.consts = {"ENABLE_COOKIE": B(w.cookie_feature)}

    def memo_get(m):
        """value of a Memo in the current phase"""
        f = m[2][0]
        key = (id(f[1]) if f[0] == "closure" else repr(f), )
        if w.phase == 0:
            return ev.apply(f, [C("None")])
        ph = w.phase
        w.phase = 0
        try:
            prev = ev.apply(f, [C("None")])
        finally:
            w.phase = ph
        return ev.apply(f, [C("Some", prev)])

    def get(rv, a):
        if rv[0] == "ctor" and rv[1] == "Memo":
            return memo_get(rv)
        if rv[0] == "ctor" and rv[1] == "SignalV":
            v = rv[2][0]
            if v[0] == "ctor" and v[1] == "PerPhase":
                return v[2][w.phase]
            return v
        if rv[0] == "ctor" and rv[1] == "Derived":
            return ev.apply(rv[2][0], [])
        return NotImplemented
    for nm in ("get", "get_untracked"):
        ev.builtins[nm] = get

    def with_(rv, a):
        if rv[0] == "ctor" and rv[1] == "SignalV":
            v = rv[2][0]
            if v[0] == "ctor" and v[1] == "PerPhase":
                v = v[2][w.phase]
            return ev.apply(a[0], [v])
        return NotImplemented
    ev.builtins["with"] = with_
    ev.builtins["with_untracked"] = with_

    def use_cookie(a):
        w.cookies_read.append(a[0])
        return T(C("SignalV", w.opt(w.cookie)), A("set_cookie"))
    ev.path_builtins.update({
        "leptos_use::use_cookie_with_options": use_cookie, "use_cookie_with_options": use_cookie,
        "signal": lambda a: T(C("SignalV", a[0]), A("set_plain_signal")),
        "Memo::new": lambda a: C("Memo", a[0]),
        "Signal::derive": lambda a: C("Derived", a[0]),
        "leptos_use::use_locales_with_options": lambda a: C("SignalV", C("PerPhase", L(S("hdr-" + w.accepted[0])), L(S("hdr-" + w.accepted[1])))),
        "use_locales_with_options": lambda a: C("SignalV", C("PerPhase", L(S("hdr-" + w.accepted[0])), L(S("hdr-" + w.accepted[1])))),
        "L::find_locale": lambda a: S(a[0][1][0][1][4:]) if a[0][0] == "list" and a[0][1] and a[0][1][0][0] == "str" else S("DEFAULT"),
        "L::from_str": lambda a: C("Ok", a[0]) if a[0][0] == "str" and a[0][1] in LOCALES else C("Err", UNIT),
        "L::default": lambda a: S("en"), "Default::default": lambda a: absint.DEFAULT,
        "leptos::prelude::document": lambda a: A("document"), "document": lambda a: A("document"),
        "init_context_inner": lambda a: C("Ctx", a[0], a[1]),
    })
    ev.builtins["document_element"] = lambda rv, a: C("Some", A("html-element")) if rv == A("document") else NotImplemented
    ev.builtins["get_attribute"] = lambda rv, a: (C("Some", S(w.html)) if w.html is not None else C("None")) if rv == A("html-element") else NotImplemented
    ev.builtins["get_locale_untracked"] = lambda rv, a: S("PARENT") if rv == A("parent-context") else NotImplemented
    ev.builtins["get_locale"] = lambda rv, a: S("PARENT-TRACKED") if rv == A("parent-context") else NotImplemented

    def use_context(a):
        return C("Some", A("parent-context")) if w.parent else C("None")
    ev.path_builtins["use_context"] = use_context
    ev.path_builtins["leptos::prelude::use_context"] = use_context
    ev.macros = dict(getattr(ev, "macros", {}) or {})
    ev.noop_macros = True
    return ev, memo_get


def _first_valid(*xs):
    for x in xs:
        if x is not None:
            return x
    return None


def check_main(ctx, r, rid):
    ast = ctx.ast
    fn = ast.fn(CTX, "init_i18n_context_with_options")
    rl = ast.fn(FL, "resolve_locale")
    if fn is None or rl is None:
        r.missing("init_i18n_context_with_options / resolve_locale")
        return
    absint.set_program(ast)
    n = 0
    bad = {}
    for cfgname, feats in (("ssr", {"ssr"}), ("hydrate", {"hydrate"}), ("csr", {"csr"})):
        for cookie in (None, "fr", "en"):          # ("en" is the default locale: a cookie that names it is a choice like any other)
            for html in (None, "de", "xx"):
                for enable in (True, False):
                    for cookie_feature in (True, False):
                        w = World(feats, cookie, html, parent=False, cookie_feature=cookie_feature)
                        ev, memo_get = make_eval(ctx, w)
                        opts = CF("I18nContextOptions", enable_cookie=B(enable), cookie_name=S("the-cookie"), cookie_options=A("cookie-options"), ssr_lang_header_getter=A("header-getter"))
                        got = ev.run_fn(fn, [opts])
                        if isinstance(got, str):
                            raise Unknown("%s (init_i18n_context_with_options, %s)" % (got, cfgname))
                        if not (got[0] == "ctor" and got[1] == "Ctx" and got[2][1][0] == "ctor" and got[2][1][1] == "Memo"):
                            raise Unknown("init_i18n_context_with_options returns %s" % absint.fmt(got)[:80])
                        memo = got[2][1]
                        w.phase = 0
                        v0 = memo_get(memo)
                        w.phase = 1
                        v1 = memo_get(memo)
                        n += 1
                        eff_cookie = cookie if (enable and cookie_feature) else None
                        html_ok = html if (cfgname == "hydrate" and html in LOCALES) else None
                        want0 = _first_valid(html_ok, eff_cookie, "ACC")
                        case = "%s build, cookie %s (%s), <html lang> %s" % (cfgname, cookie, "enabled" if enable and cookie_feature else "disabled", html)
                        if v0 != S(want0):
                            bad.setdefault("initial", "%s: the context starts with %s, expected %s (cookie, else%s the negotiated locale)" % (case, absint.fmt(v0), want0, " the server's <html lang>, else" if cfgname == "hydrate" else ""))
                        if eff_cookie is None and html_ok is None and v1 != S("ACC2"):
                            bad.setdefault("follows-negotiation", "%s: with no cookie the locale does not follow the negotiated one when it changes (%s, expected ACC2)" % (case, absint.fmt(v1)))
                        if (enable and cookie_feature) != bool(w.cookies_read):
                            bad.setdefault("cookie-read", "%s: the cookie is %sread" % (case, "" if w.cookies_read else "not "))
                        elif w.cookies_read and w.cookies_read[0] != S("the-cookie"):
                            bad.setdefault("cookie-name", "%s: the cookie read is %s, the option says `the-cookie`" % (case, absint.fmt(w.cookies_read[0])))
                # resolve_locale: the same order, answered once
                w = World(feats, None, html, parent=False)
                ev, _mg = make_eval(ctx, w)
                got = ev.run_fn(rl, [w.opt(cookie), A("header-getter")])
                if isinstance(got, str):
                    raise Unknown("%s (resolve_locale, %s)" % (got, cfgname))
                n += 1
                html_ok = html if (cfgname == "hydrate" and html in LOCALES) else None
                want = _first_valid(html_ok, cookie, "ACC")
                if got != S(want):
                    bad.setdefault("resolve_locale", "%s build, cookie %s, <html lang> %s: resolve_locale answers %s, expected %s" % (cfgname, cookie, html, absint.fmt(got), want))
    for k, msg in sorted(bad.items()):
        r.viol("%s:main-context#%s" % (rid, k), msg, file=CTX if k != "resolve_locale" else FL, line=fn.line)
    if not bad:
        r.inst("init_i18n_context_with_options / fetch_locale / resolve_locale (evaluated)", "%d situations (ssr / hydrate / csr x cookie present / absent / disabled by option or feature x <html lang> valid / invalid / absent): "
               "cookie, else (hydrate: the server's <html lang>) the negotiated locale; without a cookie the context follows the negotiation" % n)


def check_sub(ctx, r, rid):
    ast = ctx.ast
    fn = ast.fn(CTX, "init_subcontext_with_options")
    if fn is None:
        r.missing("init_subcontext_with_options")
        return
    absint.set_program(ast)
    n = 0
    bad = {}
    for cookie in (None, "fr", "en"):
        for named in (True, False):
            for init in ((None, None), ("INIT", "INIT"), (None, "INIT2"), ("INIT", "INIT2")):
                for parent in (True, False):
                    w = World({"ssr"}, cookie, None, parent=parent, initial=init)
                    ev, memo_get = make_eval(ctx, w)
                    sig = C("SignalV", C("PerPhase", w.opt(init[0]), w.opt(init[1])))
                    got = ev.run_fn(fn, [sig, C("Some", S("sub-cookie")) if named else C("None"), A("cookie-options"), C("Some", A("header-getter"))])
                    if isinstance(got, str):
                        raise Unknown("%s (init_subcontext_with_options)" % got)
                    if not (got[0] == "ctor" and got[1] == "Ctx" and got[2][1][0] == "ctor" and got[2][1][1] == "Memo"):
                        raise Unknown("init_subcontext_with_options returns %s" % absint.fmt(got)[:80])
                    memo = got[2][1]
                    w.phase = 0
                    v0 = memo_get(memo)
                    w.phase = 1
                    v1 = memo_get(memo)
                    n += 1
                    eff_cookie = cookie if named else None
                    want0 = _first_valid(eff_cookie, init[0], "PARENT" if parent else None, "ACC")
                    case = "cookie %s (%s), initial locale %s then %s, %s" % (cookie, "named" if named else "no cookie name", init[0], init[1], "inside a parent context" if parent else "no parent context")
                    if v0 != S(want0):
                        bad.setdefault("initial", "%s: the sub-context starts with %s, expected %s (cookie, explicit initial locale, parent's locale, then the main resolution)" % (case, absint.fmt(v0), want0))
                    if init[1] is not None and init[1] != init[0] and v1 != S(init[1]):
                        bad.setdefault("wired-signal", "%s: after the wired initial-locale signal changed the sub-context shows %s, expected %s" % (case, absint.fmt(v1), init[1]))
                    if named != bool(w.cookies_read):
                        bad.setdefault("cookie-read", "%s: a cookie is %sread" % (case, "" if w.cookies_read else "not "))
    for k, msg in sorted(bad.items()):
        r.viol("%s:sub-context#%s" % (rid, k), msg, file=CTX, line=fn.line)
    if not bad:
        r.inst("init_subcontext_with_options (evaluated)", "%d situations (cookie x named / unnamed x initial locale absent / fixed / appearing / changing x parent present / absent): "
               "cookie, explicit initial locale, parent's locale (read once, untracked), then the main resolution; a wired initial-locale signal wins when it changes" % n)


def check_inner(ctx, r, rid):
    """init_context_inner on a model of cells and effects.  A `RenderEffect` runs its first pass when it is created and lives as long
    as its handle (it must be moved into `on_cleanup`); an `Effect` runs its first pass on the next tick and is owned by the owner;
    an effect re-runs only for what it read *tracked*.  Demanded: the context is built around a signal created in this call holding
    the initial memo's first value; a `set_locale` made right after creation survives the first tick; when the initial memo later
    yields another value the signal takes it; every value the signal takes is written to the cookie setter; no other signal is
    written."""
    ast = ctx.ast
    fn = ast.fn(CTX, "init_context_inner")
    if fn is None:
        r.missing("init_context_inner")
        return
    absint.set_program(ast)
    w = World({"ssr"}, None, None, parent=False)
    ev, memo_get = make_eval(ctx, w)
    cells = {}
    effects = []          # [closure, kind, handle, tracked sources of the last run, kept alive]
    writes = []
    cookie_log = []
    reading = []          # stack of sets: what the running effect read tracked

    def new_cell(a):
        cid = len(cells)
        cells[cid] = a[0]
        return C("Cell", ("int", cid))
    base_get = ev.builtins["get"]

    def get_tracked(rv, a):
        if rv[0] == "ctor" and rv[1] == "Cell":
            if reading:
                reading[-1].add(("cell", rv[2][0][1]))
            return cells[rv[2][0][1]]
        if rv[0] == "ctor" and rv[1] == "Memo" and reading:
            reading[-1].add(("memo",))
        return base_get(rv, a)

    def get_untracked(rv, a):
        if rv[0] == "ctor" and rv[1] == "Cell":
            return cells[rv[2][0][1]]
        return base_get(rv, a)
    ev.builtins["get"] = get_tracked
    ev.builtins["get_untracked"] = get_untracked

    def set_(rv, a):
        if rv[0] == "ctor" and rv[1] == "Cell":
            cells[rv[2][0][1]] = a[0]
            writes.append((rv[2][0][1], a[0]))
            return UNIT
        if rv == A("set_cookie"):
            cookie_log.append(a[0])
            return UNIT
        return NotImplemented
    ev.builtins["set"] = set_

    def run_effect(e_, first):
        reading.append(set())
        try:
            ev.apply(e_[0], [C("None") if first else C("Some", UNIT)])
        finally:
            e_[3] = reading.pop()

    def effect(kind):
        def f(a):
            h = A("%s-handle-%d" % (kind, len(effects)))
            e_ = [a[0], kind, h, set(), kind != "render"]
            effects.append(e_)
            if kind == "render":
                run_effect(e_, True)            # first pass now
            return h
        return f

    def on_cleanup(a):
        cl = a[0]
        txt = repr(cl[2]) if cl[0] == "closure" else repr(cl)
        for e_ in effects:
            if e_[2][1] in txt:
                e_[4] = True                    # the handle lives in the cleanup closure
        return UNIT
    ev.path_builtins.update({"RwSignal::new": new_cell, "RenderEffect::new": effect("render"), "Effect::new": effect("effect"), "Effect::new_isomorphic": effect("effect"),
                             "on_cleanup": on_cleanup, "drop": lambda a: UNIT, "std::mem::drop": lambda a: UNIT})
    initial = C("Memo", ("builtin-fn", "phase_value"))
    ev.builtins["phase_value"] = lambda rv, a: S("FIRST") if w.phase == 0 else S("SECOND")
    w.phase = 0
    got = ev.run_fn(fn, [A("set_cookie"), initial])
    if isinstance(got, str):
        raise Unknown("%s (init_context_inner)" % got)
    f = absint.fields_of(got) if got[0] == "ctor" and len(got) > 3 else {}
    sig = f.get("locale_signal") if f else (got[2][0] if got[0] == "ctor" and got[2] else None)
    if not (sig is not None and sig[0] == "ctor" and sig[1] == "Cell" and len(cells) >= 1):
        raise Unknown("init_context_inner returns %s" % absint.fmt(got)[:100])
    cid = sig[2][0][1]
    problems = []
    if cells[cid] != S("FIRST"):
        problems.append("the context starts with %s, not with the initial memo's first value" % absint.fmt(cells[cid]))
    # the caller sets a locale right after creation, then the runtime ticks: deferred first passes run now
    cells[cid] = S("USERSET")
    for e_ in effects:
        if e_[1] == "effect":
            run_effect(e_, True)
    if cells[cid] != S("USERSET"):
        problems.append("a set_locale made right after the context was created is overwritten with %s when the effects first run (the synchronising effect must run its first pass at creation)" % absint.fmt(cells[cid]))
    if not cookie_log or cookie_log[-1] != C("Some", S("USERSET")):
        problems.append("the locale set by the caller is not written to the cookie (%s)" % [absint.fmt(x) for x in cookie_log][-2:])
    # later the initial memo yields another value: effects that read it tracked (and are still alive) re-run; then those that read the signal
    w.phase = 1
    for e_ in effects:
        if e_[4] and ("memo",) in e_[3]:
            run_effect(e_, False)
    for e_ in effects:
        if e_[4] and ("cell", cid) in e_[3]:
            run_effect(e_, False)
    if cells[cid] != S("SECOND"):
        problems.append("when the initial memo yields another locale the context keeps %s (the synchronising effect must read the memo tracked and stay alive until cleanup)" % absint.fmt(cells[cid]))
    elif not cookie_log or cookie_log[-1] != C("Some", S("SECOND")):
        problems.append("a later locale is not written to the cookie (%s)" % [absint.fmt(x) for x in cookie_log][-2:])
    if any(c != cid for c, _v in writes):
        problems.append("another signal than the context's own is written")
    if problems:
        r.viol("%s:init_context_inner#model" % rid, "; ".join(problems), file=CTX, line=fn.line)
    else:
        r.inst("init_context_inner (evaluated)", "a signal created in this call holding the initial memo's first value; a set_locale right after creation survives the first tick; the signal follows the memo "
               "when that changes (tracked read, effect kept until cleanup); every value goes to the cookie setter; %d effect(s), no other signal written" % len(effects))
