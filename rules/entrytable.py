"""The proc-macro entry points (leptos_i18n_macro/src/lib.rs) and the thin functions they call: each macro name encodes where the
locale comes from (`t` = the context, tracked; `tu` = the context, untracked; `td` = a locale value) and what is produced (`_string`,
`_display`, else a view; `_plural` / `_plural_ordinal`).  The entry passes exactly the selectors its name says, and `t_macro` /
`t_format` / `t_plural` hand them unchanged to the generator: a remapped selector turns `t_string!` into an untracked read (a memo
over it no longer follows set_locale) or `td!` into a context read."""
import re

from astlib import find_all, show, walk
from rules.common import flat

LIB = "leptos_i18n_macro/src/lib.rs"


def expected(name):
    m = re.match(r"^(t|tu|td)(?:_(string|display|format|format_string|format_display|plural|plural_ordinal))?$", name)
    if not m:
        return None
    inp = {"t": "Context", "tu": "Untracked", "td": "Locale"}[m.group(1)]
    k = m.group(2) or ""
    if k.startswith("plural"):
        return ("t_plural::t_plural", inp, "Ordinal" if k.endswith("ordinal") else "Cardinal")
    out = "String" if k.endswith("string") else ("Display" if k.endswith("display") else "View")
    return ("t_format::t_format" if k.startswith("format") else "t_macro::t_macro", inp, out)


def check(ctx, r, rid):
    ast = ctx.ast
    n = 0
    for f in ast.fns:
        if f.file != LIB or f.body is None or f.is_test():
            continue
        want = expected(f.name)
        if want is None:
            continue
        t = flat(show(f.body)).strip("{}")
        m = re.match(r"^([\w:]+)\(tokens,([\w:]+),([\w:]+),?\)$", t)
        got = (m.group(1), m.group(2).split("::")[-1], m.group(3).split("::")[-1]) if m else None
        if got != want:
            r.viol("%s:entry#%s" % (rid, f.name), "the macro `%s!` expands through `%s`; its name says %s(tokens, %s, %s)" % (f.name, t[:160], want[0], want[1], want[2]), file=LIB, line=f.line)
        else:
            n += 1
    if n < 24:
        r.viol("%s:entry#count" % rid, "only %d of the 24 t*/tu*/td* entry points were found in %s" % (n, LIB), file=LIB)
    else:
        r.inst("macro entry points", "%d macros: locale source and output kind passed as the name says" % n)
    # the thin wrappers pass their selectors through
    for file, name, inner in (("leptos_i18n_macro/src/t_macro/mod.rs", "t_macro", "t_macro_inner"), ("leptos_i18n_macro/src/t_format/mod.rs", "t_format", "t_format_inner"),
                              ("leptos_i18n_macro/src/t_plural/mod.rs", "t_plural", "t_plural_inner")):
        f = ast.fn(file, name)
        if f is None:
            r.missing(name)
            continue
        ps = f.params()
        calls = [c for c in find_all(f.body, "Call") if show(c["func"]).replace(" ", "").split("::")[-1] == inner]
        rebound = set()
        for node in walk(f.body):
            if node["k"] == "Let":
                rebound |= {y["name"] for y in walk(node["pat"]) if y["k"] == "PIdent"}
            if node["k"] == "Assign":
                rebound.add(flat(show(node["left"])).lstrip("*"))
        args = [flat(show(a)) for a in calls[0]["args"]] if len(calls) == 1 else None
        if args is None or args[1:] != ps[1:] or (rebound & set(ps[1:])):
            r.viol("%s:%s#passthrough" % (rid, name), "%s does not hand its selectors %s unchanged to %s (call arguments %s, rebound %s)" % (name, ps[1:], inner, args, sorted(rebound & set(ps[1:]))), file=file, line=f.line)
        else:
            r.inst(name, "%s(input, %s) with its own parameters" % (inner, ", ".join(ps[1:])))
