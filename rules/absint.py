"""Abstract evaluation of small pure functions over a finite domain of shapes.

Extends rules/dtable.py (constructor matching) with what the repository's table-like helper functions use: named
fields, booleans, integers that are only compared (so a finite set of orderings is exhaustive), lists with the iterator
adaptors `any/all/map/enumerate/rev/skip/take/next/first/last/len`, closures, calls to other local functions of the
same file, `for` loops over lists, and `quote!` templates (evaluated to the token text they produce). Nothing is
compiled or executed: the evaluator walks the syntax tree; whenever it meets something outside this fragment it stops
with `Unknown`, and the rule that asked reports that it can no longer decide (it never guesses).

The inputs a rule enumerates are the *shapes* the function can distinguish (constructors, orderings of the compared
numbers, the character classes delimited by the literals in the code): the analysis is a case analysis over an abstract
partition, not a sample of concrete runs."""
import re
import sys

sys.setrecursionlimit(max(sys.getrecursionlimit(), 20000))

from astlib import is_node, show, show_pat, tok_text, walk
from rules.common import _flatp
from rules import dtable
from rules.dtable import Unknown, Ret, C, A, T, UNIT, lit_value

QUOTES = ("quote", "quote_spanned", "quote::quote")


def CF(ctor_, **fields):
    """constructor with named fields"""
    return ("ctor", ctor_, (), tuple(sorted(fields.items())))


def L(*items):
    return ("list", tuple(items))


def B(b):
    return ("bool", bool(b))


def I(n):
    return ("int", n)


COLLECTION_CTORS = {"%s::%s" % (t, c) for t in ("Vec", "VecDeque", "BTreeMap", "BTreeSet", "HashMap", "HashSet", "IndexMap", "IndexSet") for c in ("new", "with_capacity", "default")} | \
    {"std::collections::%s::new" % t for t in ("BTreeMap", "BTreeSet", "HashMap", "HashSet", "VecDeque")}


class MutRef(tuple):
    """value of `&mut v[a..b]`: behaves as the current content of that part of the variable (a list value); in-place
    list operations applied through it change the variable"""
    def __new__(cls, env, name, a, z):
        cur = env[name][1]
        z2 = len(cur) if z is None else z
        self = tuple.__new__(cls, ("list", tuple(cur[a:z2])))
        self.env, self.name, self.a, self.z = env, name, a, z2
        return self

    def store(self, part):
        cur = list(self.env[self.name][1])
        self.env[self.name] = ("list", tuple(cur[:self.a] + list(part) + cur[self.z:]))


class FalseOrNone(tuple):
    """what removing from an *empty* collection answers: `None` (a map) or `false` (a set) - the model has no types; this value
    equals `None` and counts as `false` in a condition"""
    def __new__(cls):
        return tuple.__new__(cls, ("ctor", "None", ()))


class EntryRef(tuple):
    """the entry bound by `match map.entry(k) { Entry::Vacant(e) => .., Entry::Occupied(e) => .. }`: a ctor value
    (VacantEntry(key) / OccupiedEntry(key, value)) that remembers which map it belongs to, so `e.insert(v)` lands there"""
    def __new__(cls, ev, place, env, key, val):
        self = tuple.__new__(cls, ("ctor", "OccupiedEntry", (key, val)) if val is not None else ("ctor", "VacantEntry", (key,)))
        self.ev, self.place, self.env, self.key, self.val = ev, place, env, key, val
        return self

    def write(self, newv, env=None):
        self.env = env if env is not None else self.env      # the innermost scope: enclosing blocks copy their variables back on exit
        cur = self.ev.ex(self.place, self.env)
        items = [x for x in (cur[1] if cur[0] == "list" else ()) if not (x[0] == "tuple" and len(x[1]) == 2 and x[1][0] == self.key)]
        if newv is not None:
            items.append(T(self.key, newv))
        self.ev._place_store(self.place, L(*items), self.env)


class Scope(dict):
    """the variables of an inner scope (block, loop body, match arm, closure body): a copy of the enclosing scope's that remembers which
    names were written here, so that only those are copied back on exit - a name this scope did not touch may have been changed
    meanwhile through another route (a captured-by-reference closure called from here) and must not be overwritten with the stale copy"""
    def __init__(self, src=()):
        dict.__init__(self, src)
        self.written = set()

    def __setitem__(self, k, v):
        self.written.add(k)
        dict.__setitem__(self, k, v)

    def update(self, other=(), **kw):
        other = dict(other, **kw)
        self.written |= set(other)
        dict.update(self, other)

    def setdefault(self, k, d=None):
        if k not in self:
            self.written.add(k)
        return dict.setdefault(self, k, d)

    def pop(self, k, *a):
        self.written.add(k)
        return dict.pop(self, k, *a)


def _back(env, e2, skip=()):
    """copy back what the inner scope e2 wrote to names of the enclosing scope env"""
    keys = e2.written if isinstance(e2, Scope) else list(e2)
    for kk in keys:
        if kk in env and kk in e2 and kk not in skip:
            env[kk] = e2[kk]


_ITER_METHODS = {"iter", "iter_mut", "into_iter", "chars", "char_indices", "bytes", "split", "splitn", "rsplit", "rsplitn", "split_whitespace", "split_terminator", "lines", "peekable", "enumerate",
                 "map", "filter", "filter_map", "rev", "skip", "take", "zip", "chain", "by_ref", "drain", "keys", "values", "values_mut", "into_keys", "into_values", "windows", "chunks",
                 "skip_while", "take_while", "map_while", "flat_map", "flatten", "step_by", "inspect", "scan", "fuse", "cycle", "matches", "match_indices", "split_inclusive", "into_iter_sorted"}
_COLL_METHODS = {"collect", "to_vec", "to_owned", "split_off", "into_vec", "into_boxed_slice", "into_sorted_vec"}


def _var_kind(ini):
    """"iter" / "coll" / None: whether the initialiser of a `let` is an iterator (consumed by `for x in &mut it`) or a collection (walked by it)"""
    n = ini
    while is_node(n) and (n["k"] in ("Paren", "Try") or (n["k"] == "MethodCall" and n["method"] in ("unwrap", "expect", "unwrap_or_default"))):
        n = n["expr"] if n["k"] in ("Paren", "Try") else n["receiver"]
    if not is_node(n):
        return None
    if n["k"] == "MethodCall":
        if n["method"] in _COLL_METHODS:
            return "coll"
        if n["method"] in _ITER_METHODS:
            return "iter"
        return None
    if n["k"] == "Macro" and n.get("path") == "vec":
        return "coll"
    if n["k"] in ("Array", "Repeat"):
        return "coll"
    if n["k"] == "Call" and is_node(n.get("func")) and n["func"].get("k") == "Path" and (n["func"]["path"] in COLLECTION_CTORS or re.search(r"(^|::)(Vec|VecDeque|BTreeMap|BTreeSet|HashMap|HashSet)::(new|with_capacity|from|from_iter|default)$", n["func"]["path"])):
        return "coll"
    return None


def cfg_eval(text, features):
    """value of a `cfg!( .. )` condition (all / any / not / feature = "..") for a set of enabled features"""
    t = re.sub(r"\s+", "", text)

    def split(x):
        out, d, cur = [], 0, ""
        for ch in x:
            d += ch == "("
            d -= ch == ")"
            if ch == "," and d == 0:
                out.append(cur)
                cur = ""
            else:
                cur += ch
        if cur:
            out.append(cur)
        return out

    def ev_(e_):
        m = re.match(r"^(all|any|not)\((.*)\)$", e_)
        if m:
            vals = [ev_(x) for x in split(m.group(2))]
            return all(vals) if m.group(1) == "all" else (any(vals) if m.group(1) == "any" else not vals[0])
        m = re.match(r'^feature="([\w-]+)"$', e_)
        if m:
            return m.group(1) in features
        raise Unknown("cfg condition " + e_)
    return ev_(t)


def _param_kind(ty):
    t = str(ty or "")
    if re.search(r"\b(Iterator|Peekable|Chars|CharIndices|Bytes|Split\w*|IntoIter|Iter|IterMut|Enumerate|Lines)\b", t):
        return "iter"
    if re.search(r"\b(Vec|VecDeque|BTreeMap|BTreeSet|HashMap|HashSet|IndexMap)\b|\[", t):
        return "coll"
    return None


class _Rev:
    """sort key wrapped in std::cmp::Reverse"""
    def __init__(self, k):
        self.k = k

    def __lt__(self, o):
        return o.k < self.k

    def __eq__(self, o):
        return self.k == o.k


DEFAULT = ("ctor", "<default>", ())   # `Default::default()` of a type the evaluator does not know


def TOK(text):
    return ("tok", text)


class Brk(Exception):
    def __init__(self, value=None, label=None):
        self.value = value
        self.label = label


class Cont(Exception):
    def __init__(self, label=None):
        self.label = label


def fields_of(v):
    return dict(v[3]) if v[0] == "ctor" and len(v) > 3 else {}


MAX_DEPTH = 30        # nesting of interpreted calls (a value parser recursing once per piece of a long string stays far below)


class ProgramIndex:
    """All non-test functions of the analysed tree, so that a helper the evaluated code calls - one that a rule did not
    name when it was written, e.g. a method extracted by a refactoring - is still interpreted instead of being Unknown.
    Resolution is by receiver type (enum of the value's variant, or struct of that name) for methods, by `Type::name` or
    by a name that is unique in the calling file / crate for paths; an ambiguous name is never guessed."""

    def __init__(self, ast):
        self.by_qual, self.by_name, self.variant_enum, self.structs = {}, {}, {}, set()
        for f in ast.fns:
            if f.is_test() or f.body is None:
                continue
            if f.impl_self:
                t = f.impl_self.split("<")[0].split("::")[-1].lstrip("&")
                self.by_qual.setdefault((t, f.name), []).append(f)
            self.by_name.setdefault(f.name, []).append(f)
        for (path, name), e in ast.enums.items():
            for v in e.get("variants", []):
                self.variant_enum.setdefault(v["name"] if isinstance(v, dict) else v, set()).add(name)
        self.struct_named = {}
        self.struct_fields = {}
        for (path, name), e in ast.structs.items():
            self.structs.add(name)
            self.struct_named[name] = not e.get("tuple")
            fl = e.get("fields") or []
            self.struct_fields.setdefault(name, [f.get("name") for f in fl if isinstance(f, dict) and f.get("name")])
        self.consts = {}
        for (path, st, name), ce in ast.consts.items():
            if st is None and isinstance(ce, dict) and is_node(ce.get("expr")) and not path.endswith("tests.rs"):
                self.consts.setdefault(name, []).append(ce["expr"])
        self.variant_pos = {}
        for (path, name), e in ast.enums.items():
            for k, v in enumerate(e.get("variants", [])):
                self.variant_pos.setdefault(v["name"] if isinstance(v, dict) else v, []).append((path, name, k))

    @staticmethod
    def crate_of(file):
        return file.split("/src/")[0] if file else None

    def _pick(self, cands, cur_file):
        cands = [f for f in cands if not any("feature" in c and "not" in c for c in f.cfgs)] or cands
        if len(cands) == 1:
            return cands[0]
        same = [f for f in cands if f.file == cur_file]
        if len(same) == 1:
            return same[0]
        crate = [f for f in cands if self.crate_of(f.file) == self.crate_of(cur_file)]
        if len(crate) == 1:
            return crate[0]
        return None

    def method(self, ctor, name, cur_file, value=None):
        types = set(self.variant_enum.get(ctor, ()))
        if ctor in self.structs:
            types.add(ctor)
        if value is not None and len(types) > 1 and ctor in self.structs and ctor in self.struct_named:
            # `Ranges { .. }` the struct vs `ParsedValue::Ranges(..)` the variant: told apart by the shape of the value
            named = len(value) > 3 and bool(value[3])
            types = {ctor} if named == self.struct_named[ctor] and not value[2] else (types - {ctor} if value[2] or named != self.struct_named[ctor] else types)
        cands = [f for t in types for f in self.by_qual.get((t, name), []) if f.node["sig"]["inputs"] and _is_self_param(f.node["sig"]["inputs"][0])]
        return self._pick(cands, cur_file) if cands else None

    def path(self, segs, cur_file, nargs):
        if len(segs) >= 2 and (segs[-2], segs[-1]) in self.by_qual:
            return self._pick([f for f in self.by_qual[(segs[-2], segs[-1])] if len(f.node["sig"]["inputs"]) == nargs], cur_file)
        if len(segs) == 1 or segs[-2] in ("self", "super", "crate") or segs[-2][:1].islower():
            cands = [f for f in self.by_name.get(segs[-1], []) if not f.impl_self and len(f.node["sig"]["inputs"]) == nargs]
            if len(segs) >= 2 and segs[-2] not in ("self", "super", "crate"):
                inmod = [f for f in cands if f.file.endswith("/%s.rs" % segs[-2]) or f.file.endswith("/%s/mod.rs" % segs[-2]) or segs[-2] in f.mods]
                cands = inmod or cands
            return self._pick(cands, cur_file) if cands else None
        return None


def _is_self_param(p):
    pat = p.get("pat") or {}
    return p.get("self") or (pat.get("k") == "PIdent" and pat.get("name") == "self") or (pat.get("k") == "PRef" and (pat.get("pat") or {}).get("name") == "self")


PROGRAM = None


def set_program(ast):
    global PROGRAM
    PROGRAM = ProgramIndex(ast)


def _num(v):
    """the f64 a value denotes, if it is a number: ints, `float:X` atoms (the f64 model) and float literals"""
    if v[0] == "int":
        return float(v[1])
    if v[0] == "atom" and v[1].startswith("float:"):
        t = v[1][6:]
    elif v[0] == "atom" and v[1].startswith("lit:") and re.match(r"^-?\d[\d_]*(\.\d[\d_]*)?([eE][-+]?\d+)?(f32|f64)?$", v[1][4:]):
        t = re.sub(r"(f32|f64)$", "", v[1][4:]).replace("_", "")
    else:
        return None
    try:
        return float(t)
    except ValueError:
        return None


def _float_atom(x):
    if x != x:
        return A("float:nan")
    if x in (float("inf"), float("-inf")):
        return A("float:inf" if x > 0 else "float:-inf")
    return A("float:%s" % (int(x) if x == int(x) and abs(x) < 1e15 else repr(x)))


def rust_debug(v):
    """`format!("{:?}", v)` for the value kinds of the model (None when a part has no determined rendering)"""
    k = v[0]
    if k == "int":
        return str(v[1])
    if k == "bool":
        return "true" if v[1] else "false"
    if k == "char":
        c = chr(v[1])
        return "'%s'" % {"'": "\\'", "\\": "\\\\", "\n": "\\n", "\t": "\\t", "\r": "\\r"}.get(c, c)
    if k == "str":
        out = []
        for c in v[1]:
            if c in ('"', "\\"):
                out.append("\\" + c)
            elif c == "\n":
                out.append("\\n")
            elif c == "\t":
                out.append("\\t")
            elif c == "\r":
                out.append("\\r")
            elif ord(c) < 0x20 or ord(c) == 0x7f:
                out.append("\\u{%x}" % ord(c))
            else:
                out.append(c)
        return '"' + "".join(out) + '"'
    if k == "atom" and v[1].startswith("float:"):
        t = v[1][6:]
        return t if ("." in t or "e" in t or t in ("inf", "-inf")) else (t + ".0" if t != "nan" else "NaN")
    if k == "list":
        return "[" + ", ".join(rust_debug(x) for x in v[1]) + "]"
    if k == "tuple":
        return "(" + ", ".join(rust_debug(x) for x in v[1]) + ("," if len(v[1]) == 1 else "") + ")"
    if v == DEFAULT or isinstance(v, (MutRef,)):
        raise Unknown("Debug of a value of unknown type")
    if k == "ctor":
        if len(v) > 3 and v[3]:
            raise Unknown("Debug of a struct (field order is not modelled)")
        return v[1] + ("(" + ", ".join(rust_debug(x) for x in v[2]) + ")" if v[2] else "")
    raise Unknown("Debug of %s" % k)


class AEval(dtable.Eval):
    def __init__(self, inputs=(), funcs=None, consts=None, builtins=None):
        super().__init__(list(inputs))
        self.funcs = funcs or {}      # name -> astlib.Fn
        self.consts = consts or {}    # path text -> value
        self.builtins = builtins or {}  # method name -> python callable(receiver value, [argument values]) -> value
        self.path_builtins = {}         # function path (as written, or its last two segments) -> callable([argument values])
        self.totokens = None            # callable(value) -> token text or None, for values interpolated in quote!
        self.cfg = None                 # callable(flat text of a cfg!(..) predicate) -> bool
        self.mut_builtins = {}          # method name -> callable(receiver value, [argument values]) -> (new receiver value, result):
                                        # methods that change their receiver in place (the receiver expression is re-assigned)
        self.depth = 0

    # ---------------------------------------------------------------- values as tokens
    def tokens_of(self, v):
        k = v[0]
        if self.totokens is not None:
            t = self.totokens(v)
            if t is not None:
                return t
        if k == "tok":
            return v[1]
        if k == "int":
            return str(v[1])
        if k == "str":
            return '"%s"' % v[1]
        if k == "atom":
            return v[1]
        if k == "bool":
            return "true" if v[1] else "false"
        if k == "ctor" and v[1] == "Some" and v[2]:
            return self.tokens_of(v[2][0])
        if k == "ctor" and v[1] == "None":
            return ""
        if v == DEFAULT:
            return ""        # `TokenStream::new()` / `Default::default()`: no tokens
        if k == "list" and all(x[0] == "tok" for x in v[1]):
            return " ".join(x[1] for x in v[1])        # token streams collected into one TokenStream
        if k == "ctor" and PROGRAM is not None and self.depth <= 12:
            # a user type interpolated in quote!: its own ToTokens impl, interpreted
            types = set(PROGRAM.variant_enum.get(v[1], ())) | ({v[1]} if v[1] in PROGRAM.structs else set())
            cands = [f for t in types for f in PROGRAM.by_qual.get((t, "to_token_stream"), []) if "ToTokens" in (f.impl_trait or "")]
            fn = PROGRAM._pick(cands, self._cur_file()) if cands else None
            if fn is not None:
                got = self.call_fn_obj(fn, [v])
                if got[0] == "tok":
                    return got[1]
                return self.tokens_of(got)
        raise Unknown("value has no token form: %s" % (v,))

    def quote(self, tokens, env):
        out = []
        for t in tokens:
            k = t["t"]
            if k in ("ident", "lit", "punct"):
                out.append(t["v"])
            elif k == "interp":
                if t["v"] not in env:
                    raise Unknown("interpolation of unknown #%s" % t["v"])
                out.append(self.tokens_of(env[t["v"]]))
            elif k == "group":
                d = t["d"]
                out.append(d + self.quote(t["c"], env) + {"(": ")", "{": "}", "[": "]", "": ""}[d])
            elif k == "rep":
                names = [x["v"] for x in _tok_iter(t["c"]) if x["t"] == "interp"]
                lists = {n: (env[n] if env[n][0] == "list" else L()) for n in names if n in env and (env[n][0] == "list" or env[n] == DEFAULT)}
                if not lists:
                    raise Unknown("repetition without a list")
                n = min(len(v[1]) for v in lists.values())
                parts = []
                for i in range(n):
                    e2 = Scope(env)
                    for nm, v in lists.items():
                        e2[nm] = v[1][i]
                    parts.append(self.quote(t["c"], e2))
                out.append((" " + t["sep"] + " ").join(parts) if t["sep"] else " ".join(parts))
        return " ".join(x for x in out if x != "")

    # ---------------------------------------------------------------- expressions
    def ex(self, e, env):
        if not is_node(e):
            raise Unknown("non-node")
        k = e["k"]
        t = None
        if self.inputs:
            t = _flatp(show(e))
            for rx, v in self.inputs:
                if rx.search(t):
                    return v
        if k == "Path":
            p = e["path"]
            if p in env:
                return env[p]
            if p in self.consts:
                return self.consts[p]
            if p in ("true", "false"):
                return B(p == "true")
            if p in ("Cow::Owned", "Cow::Borrowed", "std::borrow::Cow::Owned", "std::borrow::Cow::Borrowed"):
                return ("ident-fn", p)
            last_ = p.split("::")[-1]
            if PROGRAM is not None and last_.isupper() and len(last_) > 1 and last_ in PROGRAM.consts:
                # a `const` / `static` of the analysed tree (SCREAMING_CASE): its initialiser, interpreted
                ce = PROGRAM.consts[last_]
                if len(ce) == 1 and self.depth < 12:
                    self.depth += 1
                    try:
                        return self.ex(ce[0], {})
                    except Unknown:
                        pass
                    finally:
                        self.depth -= 1
            mi_ = re.match(r"^(?:std::|core::)?([ui])(8|16|32|64|128|size)::(MAX|MIN)$", p)
            if mi_ and p not in self.consts:
                bits = 64 if mi_.group(2) == "size" else int(mi_.group(2))
                if mi_.group(1) == "u":
                    return I((1 << bits) - 1 if mi_.group(3) == "MAX" else 0)
                return I((1 << (bits - 1)) - 1 if mi_.group(3) == "MAX" else -(1 << (bits - 1)))
            if p == "Self" and (env.get("#Self") or (getattr(self, "_impl_stack", None) and self._impl_stack[-1])):
                return C(env["#Self"][1] if env.get("#Self") else self._impl_stack[-1])           # the tuple-struct constructor of the impl's own type
            if p.split("::")[-1][:1].isupper():
                return C(p.split("::")[-1])
            if p in ("Box::new", "Into::into", "From::from", "Rc::new", "Arc::new", "Some", "Ok", "Err", "std::convert::identity") or \
                    p in ("Rc::clone", "Arc::clone", "Clone::clone", "ToOwned::to_owned", "String::from", "ToString::to_string", "str::to_owned", "str::to_string", "String::clone",
                          "AsRef::as_ref", "Box::leak", "Cow::into_owned", "std::rc::Rc::clone", "std::sync::Arc::clone"):
                return ("ident-fn", p)
            if p in COLLECTION_CTORS:
                return ("coll-new", p)
            if p in ("Cow::Owned", "Cow::Borrowed", "std::borrow::Cow::Owned", "std::borrow::Cow::Borrowed"):
                return ("ident-fn", p)
            if p.split("::")[-1] in self.funcs and (("::" not in p) or p.startswith("Self::") or p.split("::")[-2][:1].isupper() and p.split("::")[-2] not in ("Box", "Rc", "Arc", "Vec", "String")):
                return ("fnref", p.split("::")[-1])
            if p.startswith("str::") or p.startswith("String::"):
                return ("method-fn", p.split("::")[-1])
            if "::" in p and p.split("::")[-1] in self.builtins:
                return ("builtin-fn", p.split("::")[-1])
            if PROGRAM is not None and not p.split("::")[-1][:1].isupper():
                # a function of the analysed tree used as a value (`.map(helper)`)
                q_ = p.split("::")[-2] if "::" in p else ""
                if q_ == "Self" and getattr(self, "_impl_stack", None):
                    q_ = self._impl_stack[-1]
                cands = [f2 for f2 in PROGRAM.by_name.get(p.split("::")[-1], []) if not f2.impl_self] if "::" not in p or p.split("::")[-2][:1].islower() else \
                    PROGRAM.by_qual.get((q_, p.split("::")[-1]), [])
                pf = PROGRAM._pick(cands, self._cur_file()) if cands else None
                if pf is not None:
                    return ("localfn", pf)
            raise Unknown("free variable " + p)
        if k == "Lit":
            if e.get("text") in ("true", "false"):
                return B(e["text"] == "true")
            v = lit_value(e["text"])
            if v is None and re.match(r"^\d[\d_]*(\.\d[\d_]*)?([eE][-+]?\d+)?(f32|f64)?$", e["text"].strip()) and re.search(r"[.eE]|f32|f64", e["text"]):
                return _float_atom(float(re.sub(r"(f32|f64)$", "", e["text"].strip()).replace("_", "")))        # a float literal
            if v is None and re.match(r"^\d[\d_]*(i8|i16|i128|u128)$", e["text"].strip()):
                return I(int(re.sub(r"(i8|i16|i128|u128)$", "", e["text"].strip()).replace("_", "")))
            return v if v is not None else A("lit:" + e["text"])
        if k == "Struct":
            fs = {f["member"]: self.ex(f["expr"], env) for f in e["fields"]}
            return ("ctor", e["path"].split("::")[-1], (), tuple(sorted(fs.items())))
        if k == "Field":
            b = self.ex(e["base"], env)
            m = e["member"]
            if b[0] == "ctor" and m in fields_of(b):
                return fields_of(b)[m]
            if b[0] == "tuple" and m.isdigit():
                return b[1][int(m)]
            if b[0] == "ctor" and m.isdigit() and int(m) < len(b[2]):
                return b[2][int(m)]
            if b == DEFAULT and not m.isdigit():
                return DEFAULT          # a field of a derived-Default value is the default of its own type
            raise Unknown("field %s of %s" % (m, b[:2]))
        if k == "Binary":
            op = e["op"]
            if op in ("&&", "||"):
                a = self.truth(e["left"], env)
                if op == "&&":
                    return B(a and self.truth(e["right"], env))
                return B(a or self.truth(e["right"], env))
            if op == "+=" and is_node(e["left"]) and e["left"]["k"] == "Path" and e["left"]["path"] in env and env[e["left"]["path"]][0] == "str":
                b_ = self.ex(e["right"], env)
                if b_[0] != "str":
                    raise Unknown("+= of a non string onto a string")
                env[e["left"]["path"]] = ("str", env[e["left"]["path"]][1] + b_[1])
                self._note_assigned(e["left"]["path"])
                return UNIT
            if op in ("+=", "-=", "*=") and is_node(e["left"]):
                lf = e["left"]
                while is_node(lf) and lf["k"] in ("Paren",) or (is_node(lf) and lf["k"] == "Unary" and lf.get("op") == "*"):
                    lf = lf["expr"]
                a, b = self.ex(lf, env), self.ex(e["right"], env)
                if a == DEFAULT:
                    a = I(0)
                if a[0] == "int" and b[0] == "int":
                    nv = I(a[1] + b[1] if op == "+=" else (a[1] - b[1] if op == "-=" else a[1] * b[1]))
                    if lf["k"] == "Path":
                        env[lf["path"]] = nv
                        self._note_assigned(lf["path"])
                        return UNIT
                    pl_ = self._mut_place(lf, env)
                    if pl_ is not None:
                        self._place_store(pl_, nv, env)
                        return UNIT
                    raise Unknown("compound assignment to a place that is not modelled")
                raise Unknown("compound assignment on non numbers")
            a, b = self.ex(e["left"], env), self.ex(e["right"], env)
            fa, fb = (a[0] == "atom" and a[1].startswith(("float:", "lit:"))), (b[0] == "atom" and b[1].startswith(("float:", "lit:")))
            if (fa or fb) and op in ("==", "!=", "<", "<=", ">", ">="):
                x, y = _num(a), _num(b)
                if x is None or y is None:
                    raise Unknown("comparison of a float with a value that is not a number")
                return B({"==": x == y, "!=": x != y, "<": x < y, "<=": x <= y, ">": x > y, ">=": x >= y}[op])
            if op in ("==", "!="):
                if (a[0] == "atom" and a[1].startswith("expr:")) or (b[0] == "atom" and b[1].startswith("expr:")):
                    raise Unknown("comparison of uninterpreted values")
                return B((a == b) if op == "==" else (a != b))
            if op in ("<", "<=", ">", ">="):
                if a[0] in ("int", "char") and b[0] in ("int", "char"):
                    x, y = a[1], b[1]
                    return B({"<": x < y, "<=": x <= y, ">": x > y, ">=": x >= y}[op])
                if a[0] == "str" and b[0] == "str":
                    x, y = a[1], b[1]          # (code-point order = UTF-8 byte order)
                    return B({"<": x < y, "<=": x <= y, ">": x > y, ">=": x >= y}[op])
                raise Unknown("ordering of non numbers")
            if op in ("+", "-") and a[0] == "int" and b[0] == "int":
                return I(a[1] + b[1] if op == "+" else a[1] - b[1])
            if op in ("<<", ">>", "&", "|", "^") and a[0] == "int" and b[0] == "int" and a[1] >= 0 and b[1] >= 0:
                return I({"<<": a[1] << b[1], ">>": a[1] >> b[1], "&": a[1] & b[1], "|": a[1] | b[1], "^": a[1] ^ b[1]}[op])
            if op == "+" and a[0] == "str" and b[0] == "str":
                return ("str", a[1] + b[1])
            if op in ("*", "/", "%") and a[0] == "int" and b[0] == "int":
                if op == "*":
                    return I(a[1] * b[1])
                if b[1] == 0:
                    return C("!panic")
                q = abs(a[1]) // abs(b[1]) * (1 if (a[1] >= 0) == (b[1] >= 0) else -1)      # Rust truncates toward zero
                return I(q if op == "/" else a[1] - q * b[1])
            if op in ("+", "-", "*", "/") and _num(a) is not None and _num(b) is not None and ((a[0] == "atom") or (b[0] == "atom")) and a[0] != "int" and b[0] != "int":
                x, y = _num(a), _num(b)
                try:
                    return _float_atom({"+": x + y, "-": x - y, "*": x * y, "/": (x / y if y != 0 else (float("inf") if x > 0 else float("-inf") if x < 0 else float("nan")))}[op])
                except OverflowError:
                    raise Unknown("float overflow")
            raise Unknown("operator " + op)
        if k == "Unary":
            v = self.ex(e["expr"], env)
            if e["op"] == "!":
                if v[0] != "bool":
                    raise Unknown("! on non bool")
                return B(not v[1])
            if e["op"] == "*":
                return v
            if e["op"] == "-" and v[0] == "int":
                return I(-v[1])
            if e["op"] == "-" and v[0] == "atom" and v[1].startswith("float:") and _num(v) is not None:
                return A("float:-0") if v[1] == "float:0" else _float_atom(-_num(v))
            raise Unknown("unary " + e["op"])
        if k == "Ref" and e.get("mut"):
            # `&mut v[a..b]` / `&mut v` of a list variable: a reference through which the list can be changed in place
            tgt = e["expr"]
            while is_node(tgt) and tgt["k"] == "Paren":
                tgt = tgt["expr"]
            lo = hi = None
            if is_node(tgt) and tgt["k"] == "Index" and is_node(tgt["index"]) and tgt["index"]["k"] == "Range" and is_node(tgt["expr"]) and tgt["expr"]["k"] == "Path":
                rg = tgt["index"]
                lo = self.ex(rg["start"], env) if is_node(rg.get("start")) else I(0)
                hi = self.ex(rg["end"], env) if is_node(rg.get("end")) else None
                if hi is not None and rg.get("inclusive") and hi[0] == "int":
                    hi = I(hi[1] + 1)
                base = tgt["expr"]["path"]
                if base in env and env[base][0] == "list" and lo[0] == "int" and (hi is None or hi[0] == "int"):
                    return MutRef(env, base, lo[1], hi[1] if hi is not None else None)
            return self.ex(e["expr"], env)
        if k in ("Ref", "Paren"):
            return self.ex(e["expr"], env)
        if k == "Cast":
            v = self.ex(e["expr"], env)
            ty_ = str(e.get("ty", "")).replace(" ", "")
            if v[0] == "atom" and v[1].startswith("float:") and re.match(r"^[ui](8|16|32|64|128|size)$", ty_) and _num(v) is not None:
                # float -> integer `as`: truncates toward zero and saturates at the type's bounds (NaN -> 0)
                x_ = _num(v)
                bits = 64 if ty_.endswith("size") else int(ty_[1:])
                lo, hi = (0, (1 << bits) - 1) if ty_[0] == "u" else (-(1 << (bits - 1)), (1 << (bits - 1)) - 1)
                return I(0 if x_ != x_ else max(lo, min(hi, int(x_))) if abs(x_) != float("inf") else (hi if x_ > 0 else lo))
            if v[0] == "bool" and re.match(r"^[ui](8|16|32|64|128|size)$", ty_):
                return I(1 if v[1] else 0)
            if v[0] == "int" and ty_ in ("f64",):
                return _float_atom(float(v[1]))
            if v[0] == "int" and ty_ == "f32":
                # a narrowing cast: the nearest f32 (integral counts beyond 2^24 change)
                import struct as _st
                nv = _st.unpack("f", _st.pack("f", float(v[1])))[0]
                return I(int(nv)) if nv == int(nv) else v
            if v[0] == "int" and ty_ in ("u8", "i8", "u16", "i16", "u32", "i32"):
                bits = int(ty_[1:])
                w = v[1] & ((1 << bits) - 1)
                return I(w - (1 << bits) if ty_[0] == "i" and w >= 1 << (bits - 1) else w)
            return I(v[1]) if v[0] == "char" else v
        if k == "Range":
            lo = self.ex(e["start"], env) if is_node(e.get("start")) else I(0)
            hi = self.ex(e["end"], env) if is_node(e.get("end")) else None
            if hi is None or lo[0] != "int" or hi[0] != "int":
                raise Unknown("range expression")
            return L(*[I(x) for x in range(lo[1], hi[1] + (1 if e.get("inclusive") else 0))])
        if k == "Tuple":
            return T(*[self.ex(x, env) for x in e["elems"]])
        if k == "Array":
            return L(*[self.ex(x, env) for x in e["elems"]])
        if k == "Closure":
            return ("closure", e, env)
        if k == "Block":
            if e.get("label"):
                try:
                    return self.block(e, env)
                except Brk as bk:
                    if bk.label != e["label"]:
                        raise
                    return bk.value if bk.value is not None else UNIT
            return self.block(e, env)
        if k == "Match":
            return self.match(e, env)
        if k == "If":
            return self.iff(e, env)
        if k == "Return":
            raise Ret(self.ex(e["expr"], env) if e.get("expr") else UNIT)
        if k == "Break":
            raise Brk(self.ex(e["expr"], env) if is_node(e.get("expr")) else None, e.get("label"))
        if k in ("While", "Loop"):
            n_iter = 0
            while True:
                n_iter += 1
                if n_iter > 64:
                    raise Unknown("loop does not end within 64 iterations on this input")
                e2 = env
                if k == "While":
                    c = e["cond"]
                    if is_node(c) and c["k"] == "LetExpr":
                        v = self.ex(c["expr"], env)
                        b = self.pat(c["pat"], v, env)
                        if b is None:
                            return UNIT
                        e2 = Scope(env)
                        e2.update(b)
                    elif not self.truth(c, env):
                        return UNIT
                try:
                    self.ex(e["body"], e2)
                except Cont as ct:
                    if ct.label is not None and ct.label != e.get("label"):
                        raise
                except Brk as bk:
                    if bk.label is not None and bk.label != e.get("label"):
                        raise
                    return bk.value if bk.value is not None else UNIT
                finally:
                    if e2 is not env:
                        _back(env, e2, b if (k == "While" and is_node(e["cond"]) and e["cond"]["k"] == "LetExpr") else ())
        if k == "Continue":
            raise Cont(e.get("label"))
        if k == "Try":
            v = self.ex(e["expr"], env)
            if v[0] == "ctor" and v[1] in ("Err", "None"):
                raise Ret(v)
            if v[0] == "ctor" and v[1] in ("Ok", "Some") and len(v[2]) == 1:
                return v[2][0]
            if v[0] == "atom" and not v[1].startswith("expr:"):
                # the result of an uninterpreted call: its success value is named after it
                return v
            raise Unknown("? on " + str(v)[:60])
        if k == "ForLoop":
            src = e["iter"]
            consume = None
            if is_node(src) and src["k"] == "Ref" and src.get("mut") and is_node(src["expr"]) and src["expr"]["k"] == "Path":
                consume = src["expr"]["path"]
            elif is_node(src) and src["k"] == "MethodCall" and src["method"] == "by_ref" and is_node(src["receiver"]) and src["receiver"]["k"] == "Path":
                consume = src["receiver"]["path"]
            if consume is not None and not (consume in env and env[consume][0] == "list"):
                consume = None
            if consume is not None and src["k"] == "Ref" and not isinstance(env[consume], MutRef):
                # `for x in &mut name`: an iterator is consumed, a collection is walked by mutable reference - the model holds a list for
                # both; how the variable was made tells which
                kd_ = env.get("#kind:" + consume)
                if kd_ == ("str", "coll"):
                    consume = None
                elif kd_ != ("str", "iter"):
                    raise Unknown("for over `&mut %s`: an iterator (consumed) or a collection (walked in place)?" % consume)
            it = self.ex(e["iter"], env)
            if it == DEFAULT:
                it = L()
            if it[0] != "list":
                raise Unknown("for over non list")
            store = None      # (place node, "elems" | "values") when the loop walks a collection by mutable reference
            mref = it if isinstance(it, MutRef) and consume is None else None      # `for x in it` with `it = v.iter_mut()` (a view of v)
            if mref is not None:
                store = (None, "mutref")
            if consume is None and mref is None:
                sn = src
                while is_node(sn) and sn["k"] == "Paren":
                    sn = sn["expr"]
                if is_node(sn) and sn["k"] == "Path" and getattr(self, "_mutparams_stack", None) and sn["path"] in self._mutparams_stack[-1] and sn["path"] in env and env[sn["path"]][0] == "list":
                    store = (sn, "elems")          # `for x in slice` where `slice: &mut [T]` walks it by mutable reference
                elif is_node(sn) and sn["k"] == "MethodCall" and sn["method"] in ("iter_mut", "values_mut") and not sn["args"]:
                    pl = self._mut_place(sn["receiver"], env)
                    if pl is not None:
                        store = (pl, "values" if sn["method"] == "values_mut" else "elems")
                elif is_node(sn) and sn["k"] == "MethodCall" and sn["method"] == "enumerate" and not sn["args"] and is_node(sn["receiver"]) and sn["receiver"]["k"] == "MethodCall" \
                        and sn["receiver"]["method"] == "iter_mut" and not sn["receiver"]["args"] and "enumerate" not in self.builtins:
                    pl = self._mut_place(sn["receiver"]["receiver"], env)
                    if pl is not None:
                        store = (pl, "enum-elems")
                elif is_node(sn) and any(is_node(y) and y.get("k") == "MethodCall" and y.get("method") in ("iter_mut", "values_mut") for y in walk(sn)) and "iter_mut" not in self.builtins:
                    raise Unknown("for over an adapted mutable iterator")
                elif is_node(sn) and sn["k"] == "Ref" and sn.get("mut"):
                    pl = self._mut_place(sn["expr"], env)
                    if pl is not None and self.ex(pl, env)[0] == "list" and not isinstance(self.ex(pl, env), MutRef):
                        store = (pl, "elems")
            new_elems = []
            idx = -1
            for x in it[1]:
                idx += 1
                if store is not None:
                    new_elems.append(x)
                if consume is not None:
                    # iterating through `&mut it`: the iterator variable loses the element (what is left stays for later)
                    env[consume] = ("list", tuple(env[consume][1][1:]))
                e2 = Scope(env)
                b = self.pat(e["pat"], x, e2)
                if b is None:
                    raise Unknown("loop pattern")
                e2.update(b)
                try:
                    self.ex(e["body"], e2)
                except Cont as ct:
                    if ct.label is not None and ct.label != e.get("label"):
                        raise
                    continue
                except Brk as bk:
                    if bk.label is not None and bk.label != e.get("label"):
                        raise
                    break
                finally:
                    # assignments to outer variables made in the body (also before a `continue` / `break`)
                    _back(env, e2, b)
                    if store is not None and b and any(e2.get(k2) != b[k2] for k2 in b):
                        new_elems[idx] = self._rebuild(e["pat"], x, e2)
            if mref is not None:
                if list(new_elems) != list(it[1]) and len(new_elems) == len(it[1]):
                    MutRef(env, mref.name, mref.a, mref.z).store(new_elems) if mref.name in env else mref.store(new_elems)
                return UNIT
            if store is not None and list(new_elems) != list(it[1]) and len(new_elems) == len(it[1]):
                cur = self.ex(store[0], env)
                if cur[0] == "list" and len(cur[1]) == len(new_elems):
                    if store[1] == "values":
                        new_elems = [T(o[1][0], nv) if o[0] == "tuple" and len(o[1]) == 2 else nv for o, nv in zip(cur[1], new_elems)]
                    if store[1] == "enum-elems":
                        new_elems = [nv[1][1] if nv[0] == "tuple" and len(nv[1]) == 2 else nv for nv in new_elems]
                    self._place_store(store[0], L(*new_elems), env)
            return UNIT
        if k == "Assign":
            v = self.ex(e["right"], env)
            l = e["left"]
            if is_node(l) and l["k"] == "Path":
                env[l["path"]] = v
                self._note_assigned(l["path"])
                return UNIT
            if is_node(l) and l["k"] == "Unary" and l["op"] == "*" and is_node(l["expr"]) and l["expr"]["k"] == "Path":
                if v == DEFAULT and l["expr"]["path"] == "self":
                    v = self._default_of_self(env)          # `*self = <default of an unknown type>`: the type is Self
                env[l["expr"]["path"]] = v
                self._note_assigned(l["expr"]["path"])
                return UNIT
            if is_node(l) and l["k"] == "Field":
                # `base.f = v`: functional update of the record held by base (recursively for `a.b.c = v`)
                self._assign_place(l, v, env)
                return UNIT
            raise Unknown("assignment target")
        if k == "Macro":
            return self.macro(e, env)
        if k == "Call":
            return self.call(e, env)
        if k == "MethodCall" and e["method"] in ("map", "for_each") and len(e["args"]) == 1 and is_node(e["args"][0]) and e["args"][0]["k"] == "Closure" \
                and len(e["args"][0]["inputs"]) == 1 and is_node(e["args"][0]["inputs"][0]) and e["args"][0]["inputs"][0]["k"] == "PIdent" \
                and is_node(e["receiver"]) and e["receiver"]["k"] == "MethodCall" and e["receiver"]["method"] == "iter_mut" and not e["receiver"]["args"] \
                and "iter_mut" not in self.builtins and e["method"] not in self.builtins:
            # `place.iter_mut().map(|x| ..)`: what the closure does to `x` (e.g. a `&mut self` method that rewrites it) lands in the place
            pl = self._mut_place(e["receiver"]["receiver"], env)
            cur = self.ex(pl, env) if pl is not None else None
            if cur is not None and cur[0] == "list" and not isinstance(cur, MutRef):
                f = self.ex(e["args"][0], env)
                pname = e["args"][0]["inputs"][0]["name"]
                outs, news = [], []
                for x in cur[1]:
                    self._applied_env = None
                    outs.append(self.apply(f, [x]))
                    ae = self._applied_env
                    news.append(ae[pname] if ae is not None and pname in ae else x)
                if list(news) != list(cur[1]):
                    self._place_store(pl, L(*news), env)
                return L(*outs) if e["method"] == "map" else UNIT
        if k == "MethodCall" and e["method"] == "map" and len(e["args"]) == 1 and "map" not in self.builtins and is_node(e["receiver"]) and e["receiver"]["k"] == "MethodCall" \
                and e["receiver"]["method"] in ("as_mut", "as_deref_mut") and not e["receiver"]["args"] and e["receiver"]["method"] not in self.builtins:
            # `opt.as_deref_mut().map(f)`: what f does to the value behind the reference lands in `opt`
            pl = self._mut_place(e["receiver"]["receiver"], env)
            cur = self.ex(pl, env) if pl is not None else None
            if cur is not None and cur[0] == "ctor" and cur[1] in ("Some", "None"):
                if cur[1] == "None":
                    return cur
                f = self.ex(e["args"][0], env)
                self._applied_env = None
                self._callee_env = None
                res = self.apply(f, [cur[2][0]])
                newx = None
                if f[0] == "closure" and self._applied_env is not None and len(f[1]["inputs"]) == 1 and f[1]["inputs"][0].get("k") == "PIdent":
                    newx = self._applied_env.get(f[1]["inputs"][0]["name"])
                elif f[0] in ("localfn", "fnref") and getattr(self, "_callee_env", None):
                    cfn, cenv = self._callee_env
                    p0 = cfn.node["sig"]["inputs"][0]["pat"] if cfn.node["sig"]["inputs"] else None
                    if is_node(p0) and p0.get("k") == "PIdent":
                        newx = cenv.get(p0["name"])
                if newx is not None and newx != cur[2][0]:
                    self._place_store(pl, C("Some", newx), env)
                return C("Some", res)
        if k == "MethodCall" and e["method"] in ("find", "find_map", "position", "any", "all", "nth", "skip_while_next") and e["method"] not in self.builtins \
                and is_node(e["receiver"]):
            # a short-circuiting adaptor on `it.by_ref()` / `(&mut it)`: the iterator variable loses what was looked at
            rc = e["receiver"]
            var = None
            if rc["k"] == "MethodCall" and rc["method"] == "by_ref" and not rc["args"] and is_node(rc["receiver"]) and rc["receiver"]["k"] == "Path":
                var = rc["receiver"]["path"]
            elif rc["k"] in ("Ref", "Paren"):
                r2 = rc
                while is_node(r2) and r2["k"] in ("Ref", "Paren"):
                    r2 = r2["expr"]
                if is_node(r2) and r2["k"] == "Path" and rc["k"] == "Ref" and rc.get("mut"):
                    var = r2["path"]
            if var is not None and var in env and env[var][0] == "list" and not isinstance(env[var], MutRef):
                xs = list(env[var][1])
                args = [self.ex(a, env) for a in e["args"]]
                m = e["method"]
                res = None
                used = len(xs)
                if m == "nth" and args and args[0][0] == "int":
                    used = min(len(xs), args[0][1] + 1)
                    res = C("Some", xs[args[0][1]]) if args[0][1] < len(xs) else C("None")
                else:
                    res = {"find": C("None"), "find_map": C("None"), "position": C("None"), "any": B(False), "all": B(True)}[m]
                    for i_, x in enumerate(xs):
                        v_ = self.apply(args[0], [x])
                        if m == "find" and self._b(v_):
                            res, used = C("Some", x), i_ + 1
                            break
                        if m == "find_map" and v_[0] == "ctor" and v_[1] == "Some":
                            res, used = v_, i_ + 1
                            break
                        if m == "position" and self._b(v_):
                            res, used = C("Some", I(i_)), i_ + 1
                            break
                        if m == "any" and self._b(v_):
                            res, used = B(True), i_ + 1
                            break
                        if m == "all" and not self._b(v_):
                            res, used = B(False), i_ + 1
                            break
                env[var] = ("list", tuple(xs[used:]))
                self._note_assigned(var)
                return res
        if k == "MethodCall" and is_node(e["receiver"]) and e["receiver"]["k"] == "MethodCall" and e["receiver"]["method"] == "by_ref" and not e["receiver"]["args"] \
                and is_node(e["receiver"]["receiver"]) and e["receiver"]["receiver"]["k"] == "Path" and e["receiver"]["receiver"]["path"] in env \
                and env[e["receiver"]["receiver"]["path"]][0] == "list" and e["method"] not in ("next", "peekable", "by_ref") and e["method"] not in self.builtins:
            # any other adaptor on a borrowed iterator consumes part of it in a way that is not modelled: undecided, never guessed
            raise Unknown("adaptor `%s` on a borrowed iterator (`%s.by_ref()`)" % (e["method"], e["receiver"]["receiver"]["path"]))
        if k == "MethodCall":
            return self.method(e, env)
        if k == "Index" and is_node(e["index"]) and e["index"]["k"] == "Range":
            b = self.ex(e["expr"], env)
            rg = e["index"]
            lo = self.ex(rg["start"], env) if is_node(rg.get("start")) else None
            hi = self.ex(rg["end"], env) if is_node(rg.get("end")) else None
            if b[0] == "list" and (lo is None or lo[0] == "int") and (hi is None or hi[0] == "int"):
                a = lo[1] if lo else 0
                z = (hi[1] + (1 if rg.get("inclusive") else 0)) if hi else len(b[1])
                return L(*b[1][a:z])
            if b[0] == "str" and (lo is None or lo[0] == "int") and (hi is None or hi[0] == "int"):
                return ("str", _bytes_slice(b[1], lo[1] if lo else 0, (hi[1] + (1 if rg.get("inclusive") else 0)) if hi else None))
            raise Unknown("slice")
        if k == "Index":
            b = self.ex(e["expr"], env)
            i = self.ex(e["index"], env)
            if b[0] == "list" and i[0] == "int" and 0 <= i[1] < len(b[1]):
                return b[1][i[1]]
            raise Unknown("index")
        return A("expr:" + (t or _flatp(show(e)))[:60])

    def truth(self, e, env):
        v = self.ex(e, env)
        if isinstance(v, FalseOrNone):
            return False
        if v[0] != "bool":
            raise Unknown("condition is not a boolean: %s" % (v,))
        return v[1]

    def cond(self, e, env):
        if is_node(e) and e["k"] == "LetExpr":
            raise Unknown("let in condition")
        return self.truth(e, env)

    # ---------------------------------------------------------------- macros
    def macro(self, e, env):
        p = e["path"]
        if p in QUOTES:
            toks = e["tokens"]
            if p.endswith("quote_spanned"):
                # `quote_spanned! { span => tokens }`: the span expression and the arrow are not part of the output
                for i_, t_ in enumerate(toks):
                    if t_["t"] == "punct" and t_["v"] == "=>":
                        toks = toks[i_ + 1:]
                        break
                    if t_["t"] == "punct" and t_["v"] == "=" and i_ + 1 < len(toks) and toks[i_ + 1]["t"] == "punct" and toks[i_ + 1]["v"] == ">":
                        toks = toks[i_ + 2:]
                        break
            return TOK(self.quote(toks, env))
        if p == "matches" and is_node(e.get("scrutinee")):
            v = self.ex(e["scrutinee"], env)
            b = self.pat(e["mpat"], v, env)
            if b is None:
                return B(False)
            if e.get("mguard") is not None:
                e2 = Scope(env)
                e2.update(b)
                return B(self.truth(e["mguard"], e2))
            return B(True)
        if p.split("::")[-1] in ("debug_warn", "warn", "log", "debug_log", "debug_error", "error", "trace", "debug", "info", "eprintln", "println", "eprint", "print"):
            return UNIT          # logging has no effect on what is computed
        if p in ("unreachable", "panic", "unimplemented", "todo"):
            raise Ret(C("!panic"))
        if p in ("format", "format_ident") and "args" in e and e["args"]:
            f = self.ex(e["args"][0], env)
            vals = [self.ex(a, env) for a in e["args"][1:]]
            vals = [("float", v[1][6:]) if v[0] == "atom" and v[1].startswith("float:") else v for v in vals]      # an f64: `{}` and `{:?}` print it differently
            vals = [("str", self.tokens_of(v)) if v[0] in ("tok", "atom") else v for v in vals]
            vals = [("raw", "true" if v[1] else "false") if v[0] == "bool" else v for v in vals]
            if f[0] == "str" and "{:?}" in f[1]:
                # `{:?}` of a composite value (Vec, tuple, Option ..): Rust's Debug rendering
                specs = re.findall(r"\{(:[^}]*)?\}", f[1].replace("{{", "").replace("}}", ""))
                vals = [("raw", rust_debug(v)) if k_ < len(specs) and specs[k_] == ":?" and v[0] in ("list", "tuple", "ctor") and v != DEFAULT else v for k_, v in enumerate(vals)]
            if getattr(self, "display", None) is not None:
                vals = [self.display(v) if v[0] == "ctor" else v for v in vals]
            vals = [self._program_display(v) if v[0] == "ctor" else v for v in vals]
            s = dtable.render([("fmt", f, tuple(vals))])
            return ("str", s) if p == "format" else TOK(s)
        if p in ("write", "writeln") and "args" in e and len(e["args"]) >= 2:
            f = self.ex(e["args"][1], env)
            vals = [self.ex(a, env) for a in e["args"][2:]]
            tgt = e["args"][0]
            while is_node(tgt) and tgt["k"] in ("Paren", "Unary", "Ref"):
                tgt = tgt["expr"]
            if is_node(tgt) and tgt["k"] == "Path" and tgt["path"] in env and env[tgt["path"]][0] == "str" and f[0] == "str":
                # writing into a String variable: the text is appended to it, in order with its other pushes
                vals = [("float", v[1][6:]) if v[0] == "atom" and v[1].startswith("float:") else v for v in vals]
                env[tgt["path"]] = ("str", env[tgt["path"]][1] + dtable.render([("fmt", f, tuple(vals))]) + ("\n" if p == "writeln" else ""))
                self._note_assigned(tgt["path"])
                return C("Ok", UNIT)
            self.out.append(("fmt", f, tuple(vals)))
            return C("Ok", UNIT)
        if p == "vec" and "args" in e:
            return L(*[self.ex(a, env) for a in e["args"]])
        if p == "vec" and "repeat" in e:
            x, n_ = self.ex(e["repeat"][0], env), self.ex(e["repeat"][1], env)
            if n_[0] != "int" or n_[1] < 0 or n_[1] > 4096:
                raise Unknown("vec![x; n] with n not a small integer")
            return L(*([x] * n_[1]))
        if "macro!" + p not in env and p in getattr(self, "macros", {}) and "args" in e:
            env = dict(env)
            env["macro!" + p] = ("macro",) + tuple(self.macros[p])
            # (file-level one-rule macro: same treatment as a local one; it cannot assign to the caller's variables)
        if "macro!" + p in env and "args" in e:
            # a one-rule macro_rules! defined in this function: its body evaluated in the scope of the call, parameters
            # bound to the argument expressions' values (the body names the enclosing function's variables directly)
            _m, params, body = env["macro!" + p]
            if len(params) != len(e["args"]):
                raise Unknown("macro arity " + p)
            e2 = Scope(env)
            for pn, a in zip(params, e["args"]):
                e2[pn] = self.ex(a, env)
            try:
                return self.ex(body, e2)
            finally:
                _back(env, e2, params)
        if p == "cfg":
            if getattr(self, "cfg_raw", None) is not None:
                return B(bool(self.cfg_raw(tok_text(e["tokens"]) if "tokens" in e else show(e))))          # (the condition as written, parentheses kept)
            if self.cfg is not None:
                return B(bool(self.cfg(_flatp(tok_text(e["tokens"])) if "tokens" in e else _flatp(show(e)))))
            raise Unknown("cfg!")
        raise Unknown("macro " + p)

    # ---------------------------------------------------------------- calls
    def apply(self, f, args):
        if f[0] == "closure":
            node, cenv = f[1], f[2]
            e2 = Scope(cenv)
            for p, a in zip(node["inputs"], args):
                b = self.pat(p, a, e2)
                if b is None:
                    raise Unknown("closure parameter pattern")
                e2.update(b)
            bound = set()
            for p in node["inputs"]:
                bound |= {y["name"] for y in walk(p) if y["k"] == "PIdent"}
            try:
                return self.ex(node["body"], e2)
            except Ret as r:
                return r.value
            finally:
                self._applied_env = e2
                # a closure that assigns to / pushes on a captured variable changes the variable it captured
                _back(cenv, e2, bound)
        if f[0] == "fnref":
            return self.call_fn(f[1], args)
        if f[0] == "localfn":
            return self._call_program_fn(f[1], args)
        if f[0] == "coll-new":
            return L()
        if f[0] == "builtin-fn":
            return self.builtins[f[1]](args[0] if args else None, list(args[1:]))
        if f[0] == "ident-fn":
            if f[1] in ("Some", "Ok", "Err"):
                return C(f[1], *args)
            return args[0]
        if f[0] == "method-fn":
            v = self._str_method(f[1], args[0][1], list(args[1:]), None) if args and args[0][0] == "str" else None
            if v is None:
                raise Unknown("function value " + f[1])
            return v
        if f[0] == "ctor" and not f[2]:
            return C(f[1], *args)
        raise Unknown("call of %s" % (f[:2],))

    def call_fn(self, name, args):
        fn = self.funcs.get(name)
        if fn is None:
            raise Unknown("call to unknown function " + name)
        if self.depth > MAX_DEPTH:
            raise Unknown("recursion too deep")
        params = fn.node["sig"]["inputs"]
        if len(params) != len(args):
            raise Unknown("arity of " + name)
        env = {}
        for p, a in zip(params, args):
            b = self.pat(p["pat"], a, env)
            if b is None:
                raise Unknown("parameter pattern")
            env.update(b)
        self.depth += 1
        if fn.impl_self:
            env["#Self"] = ("str", fn.impl_self.split("<")[0].split("::")[-1].lstrip("&"))
        if not hasattr(self, "_impl_stack"):
            self._impl_stack = []
        self._impl_stack.append((fn.impl_self or "").split("<")[0].split("::")[-1])
        if not hasattr(self, "_file_stack"):
            self._file_stack = []
        self._file_stack.append(fn.file)
        if not hasattr(self, "_assigned_stack"):
            self._assigned_stack = []
        self._assigned_stack.append(None)
        if not hasattr(self, "_mutparams_stack"):
            self._mutparams_stack = []
        for p_ in params:
            if is_node(p_.get("pat")) and p_["pat"].get("k") == "PIdent" and _param_kind(p_.get("ty")) is not None:
                env["#kind:" + p_["pat"]["name"]] = ("str", _param_kind(p_.get("ty")))
        self._mutparams_stack.append({p_["pat"]["name"] for p_ in params if is_node(p_.get("pat")) and p_["pat"].get("k") == "PIdent"
                                      and re.match(r"^&\s*(?:'\w+\s*)?mut\b", str(p_.get("ty", "")).strip())})
        try:
            try:
                return self._coerce_ret(fn, self.ex(fn.body, env))
            except Ret as r:
                return r.value
        finally:
            self.depth -= 1
            self._impl_stack.pop()
            self._file_stack.pop()
            self._assigned_stack.pop()
            self._mutparams_stack.pop()
            self._callee_env = (fn, env)

    def _write_back(self, arg_nodes, env):
        """after a call to a local function: what it did to its `&mut` parameters is visible in the caller's variables"""
        fn, cenv = getattr(self, "_callee_env", (None, None))
        self._callee_env = (None, None)
        if fn is None:
            return
        params = fn.node["sig"]["inputs"]
        for p, a in zip(params, arg_nodes):
            ty = (p.get("ty") or "").replace(" ", "")
            pp = p.get("pat") or {}
            if pp.get("k") != "PIdent" or not (ty.startswith("&mut") or ty.startswith("&'") and "mut" in ty[:12]):
                continue
            if pp["name"] not in cenv or a is None:
                continue
            tgt = a
            while is_node(tgt) and tgt["k"] in ("Ref", "Paren", "Unary"):
                tgt = tgt["expr"]
            try:
                self._assign_place(tgt, cenv[pp["name"]], env)
            except Unknown:
                pass

    def _assign_place(self, target, newv, env):
        while is_node(target) and target["k"] in ("Paren", "Unary", "Ref"):
            target = target["expr"]
        if is_node(target) and target["k"] == "Path":
            if target["path"] in env:
                env[target["path"]] = newv
            return
        if is_node(target) and target["k"] == "Field":
            cur = self.ex(target["base"], env)
            mem = str(target["member"])
            if cur[0] == "ctor" and len(cur) > 3 and (mem in dict(cur[3]) or not mem.isdigit()):
                fs = dict(cur[3])
                fs[mem] = newv
                self._assign_place(target["base"], ("ctor", cur[1], cur[2], tuple(sorted(fs.items()))), env)
                return
            if cur[0] == "ctor" and mem.isdigit() and int(mem) < len(cur[2]):
                a2 = list(cur[2])
                a2[int(mem)] = newv
                self._assign_place(target["base"], ("ctor", cur[1], tuple(a2)) + tuple(cur[3:]), env)
                return
            if cur[0] == "tuple" and mem.isdigit() and int(mem) < len(cur[1]):
                a2 = list(cur[1])
                a2[int(mem)] = newv
                self._assign_place(target["base"], ("tuple", tuple(a2)), env)
                return
        if is_node(target) and target["k"] in ("MethodCall", "Try") and self._mut_place(target, env) is not None:
            self._place_store(target, newv, env)
            return
        raise Unknown("assignment target")

    MUT_ACCESSORS = ("last_mut", "first_mut", "as_mut", "as_deref_mut", "as_mut_slice", "as_mut_str", "deref_mut", "borrow_mut", "get_mut", "by_ref", "iter_mut")

    def _mut_place(self, node, env):
        """node stripped of reborrows if it denotes storage that can be written through: a variable, a field chain, or
        `place.last_mut()` / `.first_mut()` / `.as_mut()` / `.as_mut_slice()` / `.get_mut()` (RefCell, Box) on one; else None"""
        while is_node(node) and node["k"] in ("Paren", "Unary", "Ref"):
            node = node["expr"]
        if not is_node(node):
            return None
        if node["k"] == "Path":
            return node if node["path"] in env else None
        if node["k"] == "Field":
            return node if self._mut_place(node["base"], env) is not None else None
        if node["k"] == "MethodCall" and node["method"] in self.MUT_ACCESSORS and not node["args"] and node["method"] not in self.builtins:
            return node if self._mut_place(node["receiver"], env) is not None else None
        if node["k"] == "MethodCall" and node["method"] in ("or_default", "or_insert", "or_insert_with") and node["method"] not in self.builtins \
                and is_node(node["receiver"]) and node["receiver"]["k"] == "MethodCall" and node["receiver"]["method"] == "entry" and "entry" not in self.builtins \
                and len(node["receiver"]["args"]) == 1:
            return node if self._mut_place(node["receiver"]["receiver"], env) is not None else None       # map.entry(k).or_default()
        if node["k"] == "MethodCall" and node["method"] == "get_mut" and len(node["args"]) == 1 and "get_mut" not in self.builtins:
            return node if self._mut_place(node["receiver"], env) is not None else None                   # map.get_mut(k) / vec.get_mut(i)
        if node["k"] == "MethodCall" and node["method"] in ("unwrap", "expect", "unwrap_at") and is_node(node["receiver"]) and node["receiver"]["k"] == "MethodCall" \
                and node["receiver"]["method"] in ("last_mut", "first_mut", "get_mut", "as_mut", "as_deref_mut"):
            return node if self._mut_place(node["receiver"], env) is not None else None
        if node["k"] == "Try" and is_node(node["expr"]) and node["expr"]["k"] == "MethodCall" and node["expr"]["method"] in ("last_mut", "first_mut", "get_mut", "as_mut", "as_deref_mut"):
            return node if self._mut_place(node["expr"], env) is not None else None
        return None

    def _place_store(self, node, newv, env):
        """write newv (the value as seen through the accessors) back into the storage denoted by a _mut_place node"""
        while is_node(node) and node["k"] in ("Paren", "Unary", "Ref"):
            node = node["expr"]
        if node["k"] in ("Path", "Field"):
            self._assign_place(node, newv, env)
            return
        if node["k"] == "Try":
            self._place_store(node["expr"], C("Some", newv), env)
            return
        m = node["method"]
        if m in ("unwrap", "expect", "unwrap_at"):
            self._place_store(node["receiver"], C("Some", newv), env)
            return
        if m in ("or_default", "or_insert", "or_insert_with"):
            ent = node["receiver"]
            inner = self._mut_place(ent["receiver"], env)
            key = self.ex(ent["args"][0], env)
            cur = self.ex(inner, env)
            if cur == DEFAULT:
                cur = L()
            if cur[0] != "list":
                raise Unknown("entry on a non map")
            xs = [x for x in cur[1] if not (x[0] == "tuple" and len(x[1]) == 2 and x[1][0] == key)]
            pos = next((i for i, x in enumerate(cur[1]) if x[0] == "tuple" and len(x[1]) == 2 and x[1][0] == key), len(xs))
            xs.insert(pos, T(key, newv))
            self._place_store(inner, L(*xs), env)
            return
        if m == "get_mut" and node["args"]:
            inner = self._mut_place(node["receiver"], env)
            key = self.ex(node["args"][0], env)
            cur = self.ex(inner, env)
            if not (newv[0] == "ctor" and newv[1] in ("Some", "None")) or cur[0] != "list":
                raise Unknown("write through get_mut")
            if newv[1] == "None":
                return
            if key[0] == "int" and not (cur[1] and all(x[0] == "tuple" and len(x[1]) == 2 for x in cur[1])):
                xs = list(cur[1])
                if 0 <= key[1] < len(xs):
                    xs[key[1]] = newv[2][0]
                self._place_store(inner, L(*xs), env)
                return
            xs = [T(key, newv[2][0]) if (x[0] == "tuple" and len(x[1]) == 2 and x[1][0] == key) else x for x in cur[1]]
            self._place_store(inner, L(*xs), env)
            return
        inner = self._mut_place(node["receiver"], env)
        cur = self.ex(inner, env)
        if m in ("last_mut", "first_mut"):
            if cur[0] != "list" or not (newv[0] == "ctor" and newv[1] in ("Some", "None")):
                raise Unknown("write through " + m)
            if newv[1] == "None" or not cur[1]:
                return
            xs = list(cur[1])
            xs[-1 if m == "last_mut" else 0] = newv[2][0]
            self._place_store(inner, L(*xs), env)
            return
        self._place_store(inner, newv, env)    # as_mut / as_mut_slice / get_mut ...: same value, seen by reference

    def _rebuild(self, p, oldv, env):
        """the value matched by pattern p, with the variables p binds replaced by their current values in env"""
        k = p["k"]
        if k == "PIdent":
            if p["name"][:1].isupper() and "sub" not in p:
                return oldv
            if "sub" in p:
                return self._rebuild(p["sub"], env.get(p["name"], oldv), env)
            return env.get(p["name"], oldv)
        if k in ("PRef", "PType", "PParen"):
            return self._rebuild(p["pat"], oldv, env)
        if k == "PTupleStruct" and oldv[0] == "ctor":
            elems = [x for x in p["elems"]]
            if any(x["k"] == "PRest" for x in elems) or len(elems) != len(oldv[2]):
                return oldv
            return ("ctor", oldv[1], tuple(self._rebuild(x, ov, env) for x, ov in zip(elems, oldv[2]))) + tuple(oldv[3:])
        if k == "PStruct" and oldv[0] == "ctor" and len(oldv) > 3:
            fs = dict(oldv[3])
            for f in p["fields"]:
                if f["member"] in fs:
                    fs[f["member"]] = self._rebuild(f["pat"], fs[f["member"]], env)
            return ("ctor", oldv[1], oldv[2], tuple(sorted(fs.items())))
        if k == "PTuple" and oldv[0] == "tuple" and len(p["elems"]) == len(oldv[1]) and not any(x["k"] == "PRest" for x in p["elems"]):
            return ("tuple", tuple(self._rebuild(x, ov, env) for x, ov in zip(p["elems"], oldv[1])))
        if k == "PSlice" and oldv[0] == "list" and len(p["elems"]) == len(oldv[1]) and not any(x["k"] == "PRest" or (x["k"] == "PIdent" and "sub" in x and x["sub"]["k"] == "PRest") for x in p["elems"]):
            return ("list", tuple(self._rebuild(x, ov, env) for x, ov in zip(p["elems"], oldv[1])))
        if k == "POr":
            for c in p["cases"]:
                try:
                    if self.pat(c, oldv, {}) is not None:
                        return self._rebuild(c, oldv, env)
                except Unknown:
                    pass
        return oldv

    def _after_arm(self, scrut_node, pat, v, b, e2, env):
        """a match arm / if-let branch ran with the bindings b of pattern `pat` against the value v of `scrut_node`: when
        the scrutinee is writable storage and the branch changed a bound variable (it was bound by reference), the storage
        now holds the changed value - unless the branch assigned the storage itself"""
        if not b:
            return
        tgt = self._mut_place(scrut_node, env)
        if tgt is None:
            if is_node(scrut_node) and scrut_node["k"] == "Tuple" and pat["k"] == "PTuple" and v[0] == "tuple" and len(scrut_node["elems"]) == len(pat["elems"]) == len(v[1]):
                for sn, pp, vv in zip(scrut_node["elems"], pat["elems"], v[1]):
                    names = {y["name"] for y in walk(pp) if y["k"] == "PIdent"}
                    self._after_arm(sn, pp, vv, {k2: b[k2] for k2 in b if k2 in names}, e2, env)
            return
        if all(e2.get(k2) == b[k2] for k2 in b):
            return
        try:
            if self.ex(tgt, env) != v:
                return          # the branch replaced the whole value (`*self = ..`)
            newv = self._rebuild(pat, v, e2)
            if newv != v:
                self._place_store(tgt, newv, env)
        except Unknown:
            pass

    def match(self, m, env):
        sc = m["scrutinee"]
        if is_node(sc) and sc["k"] == "MethodCall" and sc["method"] == "entry" and len(sc["args"]) == 1 and "entry" not in self.builtins \
                and any(re.search(r"(^|::)(Vacant|Occupied)$", (a["pat"].get("path") or "")) for a in m["arms"] if a["pat"].get("k") == "PTupleStruct"):
            pl = self._mut_place(sc["receiver"], env)
            cur = self.ex(pl, env) if pl is not None else None
            if cur == DEFAULT:
                cur = L()
            if pl is not None and cur[0] == "list":
                k = self.ex(sc["args"][0], env)
                hit = [x for x in cur[1] if x[0] == "tuple" and len(x[1]) == 2 and x[1][0] == k]
                ent = EntryRef(self, pl, env, k, hit[0][1][1] if hit else None)
                for a in m["arms"]:
                    p = a["pat"]
                    which = (p.get("path") or "").split("::")[-1] if p.get("k") == "PTupleStruct" else None
                    if which in ("Vacant", "Occupied") and (which == "Occupied") != bool(hit):
                        continue
                    e2 = Scope(env)
                    if which in ("Vacant", "Occupied"):
                        b = self.pat(p["elems"][0], ent, e2) if p.get("elems") else {}
                        if b is None:
                            continue
                        for kk in list(b):
                            if b[kk] == tuple(ent):
                                b[kk] = ent
                    else:
                        b = self.pat(p, C("Entry", k, C("Some", hit[0][1][1]) if hit else C("None")), e2)
                        if b is None:
                            continue
                    e2.update(b)
                    ent.env = e2
                    try:
                        return self.ex(a["body"], e2)
                    finally:
                        _back(env, e2, b)
                raise Unknown("no arm matches the map entry")
        v = self.ex(m["scrutinee"], env)
        for a in m["arms"]:
            b = self.pat(a["pat"], v, env)
            if b is None:
                continue
            e2 = Scope(env)
            e2.update(b)
            if a.get("guard") is not None and not self.cond(a["guard"], e2):
                continue
            if not hasattr(self, "_assigned_stack"):
                self._assigned_stack = []
            mine = set()
            self._assigned_stack.append(mine)
            try:
                return self.ex(a["body"], e2)
            finally:
                self._assigned_stack.pop()
                _back(env, e2, b)
                root = m["scrutinee"]
                while is_node(root) and root["k"] in ("Paren", "Unary", "Ref", "Field"):
                    root = root.get("expr") or root.get("base")
                if not (is_node(root) and root["k"] == "Path" and root["path"] in mine):
                    # (an arm that assigned the matched storage itself - `*self = ..` - has replaced it: the bindings are dead)
                    self._after_arm(m["scrutinee"], a["pat"], v, b, e2, env)
        raise Unknown("no arm matches " + str(v)[:200])

    def _default_of_self(self, env):
        """the value of `<Self as Default>::default()` when the impl's type has a hand-written Default in the analysed tree, else the
        unknown default"""
        ty = env["#Self"][1] if env.get("#Self") else (self._impl_stack[-1] if getattr(self, "_impl_stack", None) else None)
        if ty is None or PROGRAM is None:
            return DEFAULT
        cands = [f2 for f2 in PROGRAM.by_qual.get((ty, "default"), []) if "Default" in (f2.impl_trait or "") and f2.body is not None and not f2.params()]
        if len(cands) != 1:
            return DEFAULT
        try:
            sub = self._sub() if hasattr(self, "_sub") else None
        except Exception:  # noqa: BLE001
            sub = None
        ev2 = sub or AEval(funcs=self.funcs, consts=self.consts)
        got = ev2.run_fn(cands[0], [])
        return DEFAULT if isinstance(got, str) else got

    def _is_place(self, node, env):
        while is_node(node) and node["k"] in ("Paren", "Unary", "Ref"):
            node = node["expr"]
        if is_node(node) and node["k"] == "Path":
            return node["path"] in env
        if is_node(node) and node["k"] == "Field":
            return self._is_place(node["base"], env)
        return False

    def _collection_op(self, m, cur, vals, argn=None):
        """(new list, result) of a mutating collection method on a list / set / map value"""
        cur = list(cur)
        if m in ("push", "push_back") and len(vals) == 1:
            return cur + [vals[0]], UNIT
        if m == "push_front" and len(vals) == 1:
            return [vals[0]] + cur, UNIT
        if m == "insert" and len(vals) == 2 and vals[0][0] == "int" and not (cur and all(x[0] == "tuple" and len(x[1]) == 2 for x in cur)) and vals[0][1] <= len(cur):
            return cur[:vals[0][1]] + [vals[1]] + cur[vals[0][1]:], UNIT       # Vec::insert(index, value)
        if m == "insert" and len(vals) == 2:
            old = [x for x in cur if x[0] == "tuple" and len(x[1]) == 2 and x[1][0] == vals[0]]
            return [x for x in cur if x not in old] + [T(vals[0], vals[1])], (C("Some", old[0][1][1]) if old else C("None"))
        if m == "insert" and len(vals) == 1:
            return (cur, B(False)) if vals[0] in cur else (cur + [vals[0]], B(True))
        if m == "extend" and len(vals) == 1 and vals[0][0] == "list":
            return cur + list(vals[0][1]), UNIT
        if m == "extend" and len(vals) == 1 and vals[0][0] == "tok":
            return cur + [vals[0]], UNIT
        if m in ("pop", "pop_back") and not vals:
            return (cur[:-1], C("Some", cur[-1])) if cur else (cur, C("None"))
        if m == "clear" and not vals:
            return [], UNIT
        if m == "pop_front" and not vals:
            return (cur[1:], C("Some", cur[0])) if cur else (cur, C("None"))
        ismap = bool(cur) and all(x[0] == "tuple" and len(x[1]) == 2 for x in cur)
        if m in ("remove", "swap_remove", "remove_entry", "shift_remove", "take") and len(vals) == 1:
            k = vals[0]
            by_index = None
            if k[0] == "int" and cur and not ismap and all(x[0] == "int" for x in cur) and m != "swap_remove":
                # integers in it and an integer argument: Vec::remove(index) or set.remove(&key)?  Only the spelling of the argument tells:
                # `&k` is a key, a literal or an arithmetic expression an index; a bare name could be either
                a0 = argn[0] if argn else None
                while is_node(a0) and a0["k"] == "Paren":
                    a0 = a0["expr"]
                if is_node(a0) and a0["k"] == "Ref":
                    by_index = False
                elif is_node(a0) and a0["k"] in ("Lit", "Binary"):
                    by_index = True
                else:
                    raise Unknown("%s(x) on a collection of integers: index or key?" % m)
            if k[0] == "int" and not (ismap and any(x[1][0][0] == "int" for x in cur)) and by_index is not False:
                if not 0 <= k[1] < len(cur):
                    raise Ret(C("!panic"))
                if m == "swap_remove":
                    rest = cur[:k[1]] + cur[k[1] + 1:]
                    if k[1] < len(rest):
                        rest = rest[:k[1]] + [rest[-1]] + rest[k[1]:-1]
                    return rest, cur[k[1]]
                return cur[:k[1]] + cur[k[1] + 1:], cur[k[1]]
            if ismap:
                hit = [x for x in cur if x[1][0] == k]
                rest = [x for x in cur if x[1][0] != k]
                if m == "remove_entry":
                    return rest, (C("Some", hit[0]) if hit else C("None"))
                return rest, (C("Some", hit[0][1][1]) if hit else C("None"))
            if m == "take":
                return [x for x in cur if x != k], (C("Some", k) if k in cur else C("None"))
            if not cur:
                # nothing in it: a set would answer `false`, a map `None` - the model cannot tell which this is; the answer is a value
                # that is both (usable as a condition, and as an absent Option)
                return [], FalseOrNone()
            return [x for x in cur if x != k], B(k in cur)       # set
        raise Unknown("mutation " + m)


    @staticmethod
    def _coerce_ret(fn, v):
        """`iter.map(|x| Ok(..)).collect()` as the tail of a function returning Result<Vec<..>>: the first Err, or Ok(list)"""
        out = (fn.node.get("sig", {}).get("output") or "").replace(" ", "")
        if out.startswith("Result<") and not isinstance(v, str) and v[0] == "list" and all(x[0] == "ctor" and x[1] in ("Ok", "Err") for x in v[1]):
            for x in v[1]:
                if x[1] == "Err":
                    return x
            return C("Ok", L(*[x[2][0] for x in v[1]]))
        return v

    def call(self, e, env):
        f = e["func"]
        if is_node(f) and f["k"] == "Path" and re.search(r"(^|::)mem::(take|replace|swap)$", f["path"]) and e["args"]:
            which = f["path"].rsplit("::", 1)[1]
            tgt = self._mut_place(e["args"][0], env)
            if tgt is not None:
                old_ = self.ex(tgt, env)
                if which == "take" and len(e["args"]) == 1:
                    empty = L() if old_[0] == "list" else (("str", "") if old_[0] == "str" else (C("None") if old_[0] == "ctor" and old_[1] in ("Some", "None") else (I(0) if old_[0] == "int" else (C("Default") if old_[0] == "ctor" else DEFAULT))))
                    self._place_store(tgt, empty, env)
                    return old_
                if which == "replace" and len(e["args"]) == 2:
                    newv = self.ex(e["args"][1], env)
                    self._place_store(tgt, newv, env)
                    return old_
                if which == "swap" and len(e["args"]) == 2:
                    t2 = self._mut_place(e["args"][1], env)
                    if t2 is not None:
                        o2 = self.ex(t2, env)
                        self._place_store(tgt, o2, env)
                        self._place_store(t2, old_, env)
                        return UNIT
        args = [self.ex(a, env) for a in e["args"]]
        if is_node(f) and f["k"] == "Path":
            last = f["path"].split("::")[-1]
            for key in (f["path"], "::".join(f["path"].split("::")[-2:])):
                if key in self.path_builtins:
                    return self.path_builtins[key](args)
            segs = f["path"].split("::")
            if last in getattr(self, "error_ctor_names", ()) and len(segs) >= 2 and re.match(r"^([A-Z][a-z]?|\w*Error>?)$", segs[-2]):
                # `E::custom(..)` / `A::Error::missing_field(..)` / `<A::Error as de::Error>::custom(..)`: the error constructors of serde,
                # through whatever name the type parameter has here
                return C(last, *args[:1])
            if last in ("try_from", "from") and len(segs) == 2 and re.match(r"^([A-Z]|[ui](8|16|32|64|128|size)|<\$?\w+>)$", segs[0]) and ("TryFrom::" + last if last == "try_from" else "From::from") in self.path_builtins:
                # `U::try_from(x)` / `u8::try_from(x)`: the std conversion, modelled like `TryFrom::try_from(x)`
                return self.path_builtins["TryFrom::try_from" if last == "try_from" else "From::from"](args)
            if len(segs) >= 2 and segs[-2] in ("RefCell", "Cell", "Mutex", "RwLock", "Rc", "Arc", "Box", "Cow", "Some", "OnceCell") and last in ("new", "from") and len(args) == 1 \
                    and "::".join(segs[-2:]) not in self.funcs:
                return args[0]
            if len(segs) >= 2 and "::".join(segs[-2:]) in self.funcs:
                v = self.call_fn("::".join(segs[-2:]), args)
                self._write_back(e["args"], env)
                return v
            if len(segs) >= 2 and segs[-2] == "Self" and getattr(self, "_impl_stack", None) and ("%s::%s" % (self._impl_stack[-1], last)) in self.funcs:
                v = self.call_fn("%s::%s" % (self._impl_stack[-1], last), args)
                self._write_back(e["args"], env)
                return v
            if f["path"] in env and env[f["path"]][0] == "localfn":
                v = self._call_program_fn(env[f["path"]][1], args)
                self._write_back(e["args"], env)
                return v
            if f["path"] in env:
                return self.apply(env[f["path"]], args)
            if f["path"] in COLLECTION_CTORS:
                return L()
            if not args and re.match(r"^[A-Z]::default$", f["path"]):
                return DEFAULT          # the Default of a type parameter
            if f["path"] in ("Cow::Owned", "Cow::Borrowed", "std::borrow::Cow::Owned", "std::borrow::Cow::Borrowed") and len(args) == 1:
                return args[0]
            if all(sg[:1].islower() or sg[:1] == "_" for sg in segs) and last in self.funcs and self.funcs[last].impl_self and PROGRAM is not None:
                # a bare call `name(..)` denotes a free function, not the method of that name of some impl in the file
                free = [f2 for f2 in PROGRAM.by_name.get(last, []) if not f2.impl_self and len(f2.node["sig"]["inputs"]) == len(args)]
                if len(segs) >= 2 and segs[-2] not in ("self", "super", "crate"):
                    # `module::name(..)`: the function of that name in the file of that module
                    free = [f2 for f2 in free if f2.file.endswith("/%s.rs" % segs[-2]) or f2.file.endswith("/%s/mod.rs" % segs[-2]) or segs[-2] in f2.mods]
                pf = PROGRAM._pick(free, self._cur_file() or self.funcs[last].file) if free else None
                if pf is not None:
                    v = self._call_program_fn(pf, args)
                    self._write_back(e["args"], env)
                    return v
            if last in self.funcs and not (len(segs) >= 2 and segs[-2][:1].isupper() and segs[-2] != "Self" and (self.funcs[last].impl_self or "") \
                                           and (self.funcs[last].impl_self or "").split("<")[0].split("::")[-1].lstrip("&") != segs[-2]):
                # (a path `Type::name` never denotes the `name` of another type's impl)
                v = self.call_fn(last, args)
                self._write_back(e["args"], env)
                return v
            if f["path"] in ("Box::new", "Rc::new", "Arc::new", "Into::into", "From::from", "std::convert::identity", "Clone::clone", "core::clone::Clone::clone") and len(args) == 1:
                return args[0]
            if last == "default" and not args and (f["path"] in ("Default::default", "std::default::Default::default", "core::default::Default::default") or re.match(r"^[A-Z]::default$", f["path"])):
                return DEFAULT
            if f["path"] in ("std::mem::discriminant", "mem::discriminant", "core::mem::discriminant") and len(args) == 1 and args[0][0] == "ctor":
                return A("discriminant:" + args[0][1])
            if f["path"] in ("std::iter::once", "iter::once", "core::iter::once") and len(args) == 1:
                return L(args[0])
            if f["path"] in ("std::iter::empty", "iter::empty", "core::iter::empty") and not args:
                return L()
            if f["path"] in ("std::iter::repeat_n", "iter::repeat_n") and len(args) == 2 and args[1][0] == "int":
                return L(*([args[0]] * args[1][1]))
            if last == "from" and len(args) == 1 and args[0][0] == "bool" and re.match(r"^(usize|u8|u16|u32|u64|u128|isize|i8|i16|i32|i64|i128)::from$", f["path"]):
                return I(1 if args[0][1] else 0)
            if PROGRAM is not None and not last[:1].isupper():
                pf = PROGRAM.path(segs if segs[0] != "Self" or not getattr(self, "_impl_stack", None) else [self._impl_stack[-1]] + segs[1:], self._cur_file(), len(args))
                if pf is not None:
                    v = self._call_program_fn(pf, args)
                    self._write_back(e["args"], env)
                    return v
            if last[:1].isupper():
                if last == "Self" and (env.get("#Self") or (getattr(self, "_impl_stack", None) and self._impl_stack[-1])):
                    last = env["#Self"][1] if env.get("#Self") else self._impl_stack[-1]          # `Self(..)` in an impl of a tuple struct (also inside a closure run elsewhere)
                return C(last, *args)
            if f["path"] in ("Vec::new", "Vec::with_capacity", "BTreeMap::new", "BTreeSet::new", "HashMap::new", "HashSet::new", "VecDeque::new"):
                return L()
            if last in ("from", "into", "clone", "to_token_stream", "to_owned") and len(args) == 1:
                return args[0]
            if last == "take" and f["path"].endswith("mem::take") and len(args) == 1:
                return args[0]
            if f["path"] in ("std::ops::Not::not", "core::ops::Not::not", "Not::not", "bool::not") and len(args) == 1 and args[0][0] == "bool":
                return B(not args[0][1])
            if last in ("call_site", "mixed_site") and not args and len(segs) >= 2 and segs[-2] == "Span":
                return A("span")
            if last in ("new", "new_raw") and len(args) == 2 and len(segs) >= 2 and segs[-2] == "Ident" and args[0][0] == "str" and args[1] == A("span") \
                    and "Ident::new" not in self.path_builtins:
                if not re.match(r"^[A-Za-z_][A-Za-z0-9_]*$", args[0][1]):
                    raise Ret(C("!panic"))
                return TOK(args[0][1])          # an identifier is its text, as in quote! interpolation
            if f["path"] in ("String::new", "String::default", "std::string::String::new") and not args or (f["path"] == "String::with_capacity" and len(args) == 1):
                return ("str", "")
            if last in ("default", "new") and not args and len(segs) == 2 and segs[0][:1].isupper():
                return DEFAULT          # `Type::default()` / `Type::new()` of a type without a local constructor: its default value
            if getattr(self, "opaque_paths", None) is not None and self.opaque_paths.search(f["path"]):
                # a function of the environment (e.g. an associated function of a type parameter): an uninterpreted value
                return A("%s(%s)" % (f["path"], ", ".join(fmt(x) for x in args)))
            raise Unknown("call to " + f["path"])
        return self.apply(self.ex(f, env), args)

    def _ordering(self, v):
        if v[0] == "ctor" and v[1] in ("Less", "Equal", "Greater"):
            return {"Less": -1, "Equal": 0, "Greater": 1}[v[1]]
        raise Unknown("comparator did not return an Ordering: %s" % (v[:2],))

    def _key(self, v):
        if v[0] in ("int", "char", "str", "bool"):
            return (v[0], v[1])
        if v[0] == "tuple":
            return ("tuple", tuple(self._key(x) for x in v[1]))
        if v[0] == "ctor" and v[1] == "Reverse" and v[2]:
            return ("rev", _Rev(self._key(v[2][0])))
        if v[0] == "ctor" and v[1] in ("Some", "None"):
            return ("opt", 1, self._key(v[2][0])) if v[1] == "Some" else ("opt", 0, ())
        if v[0] == "atom":
            return ("atom", v[1])       # opaque values: ordered by name (deterministic; their real order is not modelled)
        if v[0] == "ctor" and PROGRAM is not None:
            # a user type: its own `Ord::cmp` when it has one that orders by a single field (e.g. Key by name), else the derived
            # order (position of the variant, then the fields in declaration order)
            fn = PROGRAM.method(v[1], "cmp", self._cur_file(), v)
            if fn is not None and fn.body is not None:
                m = re.match(r"^\{?self\.(\w+)\.cmp\(&other\.\1\)\}?$", re.sub(r"\s+", "", __import__("astlib").show(fn.body)))
                if m:
                    return ("by-field", self._key(fields_of(v).get(m.group(1)) if m.group(1) in fields_of(v) else v[2][int(m.group(1))]))
                raise Unknown("sort key: user-defined ordering of %s" % v[1])
            cands = PROGRAM.variant_pos.get(v[1]) or []
            crate = PROGRAM.crate_of(self._cur_file())
            pos = {k for (pth, _en, k) in cands if PROGRAM.crate_of(pth) == crate} or {k for (_p, _e, k) in cands}
            if len(pos) == 1:
                fs = fields_of(v)
                return ("variant", next(iter(pos)), tuple(self._key(x) for x in v[2]) + tuple(self._key(fs[k]) for k in sorted(fs)))
            if v[1] in PROGRAM.struct_fields:
                fs = fields_of(v)
                return ("struct", tuple(self._key(x) for x in v[2]) + tuple(self._key(fs[k]) for k in PROGRAM.struct_fields[v[1]] if k in fs))
        raise Unknown("sort key is not a number / string: %s" % (v,))

    def _inplace(self, m, part, args):
        import functools
        if m in ("retain", "retain_mut"):
            f = args[0]
            if f[0] == "closure" and len(f[1]["inputs"]) == 2:      # maps: the closure takes (key, value)
                return [x for x in part if self._b(self.apply(f, list(x[1]) if x[0] == "tuple" and len(x[1]) == 2 else [x]))]
            return [x for x in part if self._b(self.apply(f, [x]))]
        if m in ("sort", "sort_unstable"):
            return sorted(part, key=self._key)
        if m in ("sort_by", "sort_unstable_by"):
            return sorted(part, key=functools.cmp_to_key(lambda x, y: self._ordering(self.apply(args[0], [x, y]))))
        if m in ("sort_by_key", "sort_unstable_by_key", "sort_by_cached_key"):
            return sorted(part, key=lambda x: self._key(self.apply(args[0], [x])))
        if m == "reverse":
            return list(reversed(part))
        if m == "dedup":
            out = []
            for x in part:
                if not out or out[-1] != x:
                    out.append(x)
            return out
        if m == "dedup_by" and args:
            out = []
            for x in part:
                if out and self._b(self.apply(args[0], [x, out[-1]])):
                    continue        # `same_bucket(current, previous)`: the current element is removed
                out.append(x)
            return out
        if m == "dedup_by_key" and args:
            out, keys = [], []
            for x in part:
                kx = self.apply(args[0], [x])
                if out and keys[-1] == kx:
                    continue
                out.append(x)
                keys.append(kx)
            return out
        if m == "truncate" and args and args[0][0] == "int":
            return part[:args[0][1]]
        if m == "swap" and len(args) == 2 and args[0][0] == "int" and args[1][0] == "int" and max(args[0][1], args[1][1]) < len(part):
            part = list(part)
            part[args[0][1]], part[args[1][1]] = part[args[1][1]], part[args[0][1]]
            return part
        if m in ("rotate_left", "rotate_right") and args and args[0][0] == "int" and args[0][1] <= len(part):
            n = args[0][1] if m == "rotate_left" else len(part) - args[0][1]
            return part[n:] + part[:n]
        raise Unknown("in-place " + m)

    def method(self, e, env):
        m = e["method"]
        rnode = e["receiver"]
        if m in ("push", "push_back", "push_front", "insert", "extend", "entry", "retain", "sort", "sort_by", "sort_unstable", "clear") and is_node(rnode) and rnode["k"] == "Path" \
                and env.get(rnode["path"]) == DEFAULT and m not in self.builtins and m not in self.mut_builtins:
            env[rnode["path"]] = L()        # the default value of a collection type is the empty collection
        # stateful iterator: `it.next()` on a variable holding a list
        if m == "next" and not e["args"] and is_node(rnode) and rnode["k"] == "Path" and isinstance(env.get(rnode["path"]), MutRef):
            ref = env[rnode["path"]]
            src_env = env if ref.name in env else ref.env
            cur = src_env[ref.name][1]
            if ref.a >= min(ref.z, len(cur)):
                return C("None")
            env[rnode["path"]] = MutRef(src_env, ref.name, ref.a + 1, ref.z)
            return C("Some", cur[ref.a])
        if m == "next" and not e["args"] and is_node(rnode) and rnode["k"] == "Path" and rnode["path"] in env and env[rnode["path"]][0] == "list":
            lst = env[rnode["path"]][1]
            if not lst:
                return C("None")
            env[rnode["path"]] = ("list", lst[1:])
            return C("Some", lst[0])
        if m in ("peek", "peek_mut") and not e["args"] and is_node(rnode) and rnode["k"] == "Path" and rnode["path"] in env and env[rnode["path"]][0] == "list":
            lst = env[rnode["path"]][1]
            return C("Some", lst[0]) if lst else C("None")
        if m in ("retain", "retain_mut", "sort", "sort_unstable", "sort_by", "sort_unstable_by", "sort_by_key", "sort_unstable_by_key", "sort_by_cached_key", "reverse", "dedup", "dedup_by", "dedup_by_key", "truncate", "swap", "rotate_left", "rotate_right"):
            tgt, lo, hi = rnode, None, None
            while is_node(tgt) and tgt["k"] in ("Paren", "Ref", "Unary"):
                tgt = tgt["expr"]
            if is_node(tgt) and tgt["k"] == "Index" and is_node(tgt["index"]) and tgt["index"]["k"] == "Range":
                rg = tgt["index"]
                lo = self.ex(rg["start"], env) if is_node(rg.get("start")) else I(0)
                hi = self.ex(rg["end"], env) if is_node(rg.get("end")) else None
                if hi is not None and rg.get("inclusive") and hi[0] == "int":
                    hi = I(hi[1] + 1)
                tgt = tgt["expr"]
                while is_node(tgt) and tgt["k"] in ("Paren", "Ref", "Unary"):
                    tgt = tgt["expr"]
            if is_node(tgt) and tgt["k"] == "Path" and lo is None and isinstance(env.get(tgt["path"]), MutRef):
                ref = env[tgt["path"]]
                cur = list(ref.env[ref.name][1][ref.a:ref.z])
                args = [self.ex(x, env) for x in e["args"]]
                part = self._inplace(m, cur, args)
                if len(part) != len(cur):
                    raise Unknown("length-changing operation through a slice reference")
                ref.store(part)
                env[tgt["path"]] = MutRef(ref.env, ref.name, ref.a, ref.z)
                return UNIT
            if is_node(tgt) and tgt["k"] == "Field" and self._is_place(tgt, env):
                curv = self.ex(tgt, env)
                if curv[0] == "list":
                    whole = list(curv[1])
                    a = lo[1] if lo is not None and lo[0] == "int" else 0
                    z = hi[1] if hi is not None and hi[0] == "int" else len(whole)
                    if (lo is not None and lo[0] != "int") or (hi is not None and hi[0] != "int") or not (0 <= a <= z <= len(whole)):
                        raise Unknown("slice bounds")
                    args = [self.ex(x, env) for x in e["args"]]
                    part = self._inplace(m, whole[a:z], args)
                    self._assign_place(tgt, L(*(whole[:a] + part + whole[z:])), env)
                    return UNIT
            if is_node(tgt) and tgt["k"] == "Path" and tgt["path"] in env and env[tgt["path"]][0] == "list":
                whole = list(env[tgt["path"]][1])
                a = lo[1] if lo is not None and lo[0] == "int" else 0
                z = hi[1] if hi is not None and hi[0] == "int" else len(whole)
                if (lo is not None and lo[0] != "int") or (hi is not None and hi[0] != "int") or not (0 <= a <= z <= len(whole)):
                    raise Unknown("slice bounds")
                part = whole[a:z]
                args = [self.ex(x, env) for x in e["args"]]
                part = self._inplace(m, part, args)
                env[tgt["path"]] = L(*(whole[:a] + part + whole[z:]))
                return UNIT
        if m == "clear" and not e["args"] and is_node(rnode) and rnode["k"] == "Path" and rnode["path"] in env and env[rnode["path"]][0] == "list":
            env[rnode["path"]] = L()
            return UNIT
        if m in ("remove", "swap_remove", "remove_entry", "pop_front") and m not in self.builtins and m not in self.mut_builtins and m not in self.funcs \
                and is_node(rnode) and rnode["k"] == "Path" and rnode["path"] in env and env[rnode["path"]][0] == "list" and not isinstance(env[rnode["path"]], MutRef):
            vals = [self.ex(a, env) for a in e["args"]]
            newl, res = self._collection_op(m, env[rnode["path"]][1], vals, e["args"])
            env[rnode["path"]] = L(*newl)
            return res
        if m in ("push", "push_back", "push_front", "insert", "extend", "pop", "pop_back", "clear", "remove", "swap_remove", "remove_entry", "pop_front") and m not in self.builtins and m not in self.mut_builtins:
            # on a field of a variable (`cfg.locales.push(x)`), or through `opt.get_or_insert_with(..)` on an Option place
            tgt = rnode
            while is_node(tgt) and tgt["k"] in ("Paren", "Unary", "Ref"):
                tgt = tgt["expr"]
            if is_node(tgt) and tgt["k"] in ("Field", "MethodCall", "Try") and self._mut_place(tgt, env) is not None:
                curv = self.ex(tgt, env)
                if curv == DEFAULT:
                    curv = L()
                if curv[0] == "list" and not isinstance(curv, MutRef):
                    vals = [self.ex(a, env) for a in e["args"]]
                    newl, res = self._collection_op(m, curv[1], vals, e["args"])
                    self._place_store(tgt, L(*newl), env)
                    return res
            if is_node(tgt) and tgt["k"] == "MethodCall" and tgt["method"] in ("get_or_insert_with", "get_or_insert", "get_or_insert_default") and self._is_place(tgt["receiver"], env):
                opt = self.ex(tgt["receiver"], env)
                if opt[0] == "ctor" and opt[1] in ("Some", "None"):
                    if opt[1] == "Some":
                        inner = opt[2][0]
                    elif tgt["method"] == "get_or_insert_with":
                        inner = self.apply(self.ex(tgt["args"][0], env), [])
                    elif tgt["method"] == "get_or_insert":
                        inner = self.ex(tgt["args"][0], env)
                    else:
                        inner = L()
                    if inner == DEFAULT:
                        inner = L()
                    if inner[0] == "list":
                        vals = [self.ex(a, env) for a in e["args"]]
                        newl, res = self._collection_op(m, inner[1], vals, e["args"])
                        self._assign_place(tgt["receiver"], C("Some", L(*newl)), env)
                        return res
        if m in ("push", "push_back", "insert", "extend") and is_node(rnode) and rnode["k"] == "Path" and rnode["path"] in env and env[rnode["path"]][0] == "list":
            vals = [self.ex(a, env) for a in e["args"]]
            cur = list(env[rnode["path"]][1])
            if m in ("push", "push_back") and len(vals) == 1:
                cur.append(vals[0])
            elif m == "insert" and len(vals) == 2:
                newl, res = self._collection_op(m, cur, vals, e["args"])       # Vec::insert(i, x) / map.insert(k, v) -> the previous value
                env[rnode["path"]] = ("list", tuple(newl))
                return res
            elif m == "insert" and len(vals) == 1:
                was_new = vals[0] not in cur
                if was_new:
                    cur.append(vals[0])
                env[rnode["path"]] = ("list", tuple(cur))
                return B(was_new)
            elif m == "extend" and len(vals) == 1 and vals[0][0] == "list":
                cur.extend(vals[0][1])
            elif m == "extend" and len(vals) == 1 and vals[0][0] == "tok":
                cur.append(vals[0])          # TokenStream::extend(TokenStream): concatenation
            elif m == "extend" and len(vals) == 1 and vals[0][0] == "ctor" and vals[0][1] in ("Some", "None"):
                cur.extend(vals[0][2][:1])   # extend(Option<T>)
            else:
                raise Unknown("mutation " + m)
            env[rnode["path"]] = ("list", tuple(cur))
            return UNIT
        if m in ("pop", "pop_back") and not e["args"] and m not in self.builtins and m not in self.mut_builtins and is_node(rnode) and rnode["k"] == "Path" and rnode["path"] in env \
                and env[rnode["path"]][0] == "list" and not isinstance(env[rnode["path"]], MutRef):
            cur = list(env[rnode["path"]][1])
            env[rnode["path"]] = ("list", tuple(cur[:-1]))
            return C("Some", cur[-1]) if cur else C("None")
        # mutation of a list held in a named field of a variable: `keys.0.insert(k, v)`
        if m in ("push", "insert", "extend") and is_node(rnode) and rnode["k"] == "Field" and is_node(rnode["base"]) and rnode["base"]["k"] == "Path" \
                and rnode["base"]["path"] in env and env[rnode["base"]["path"]][0] == "ctor":
            holder = env[rnode["base"]["path"]]
            fs = fields_of(holder)
            mem = rnode["member"]
            cur = None
            if mem in fs and fs[mem][0] == "list":
                cur = list(fs[mem][1])
            elif mem.isdigit() and int(mem) < len(holder[2]) and holder[2][int(mem)][0] == "list":
                cur = list(holder[2][int(mem)][1])
            if cur is not None:
                vals = [self.ex(a, env) for a in e["args"]]
                if m == "push" and len(vals) == 1:
                    cur.append(vals[0])
                elif m == "insert" and len(vals) == 2:
                    cur = [x for x in cur if not (x[0] == "tuple" and len(x[1]) == 2 and x[1][0] == vals[0])] + [T(vals[0], vals[1])]
                elif m == "extend" and len(vals) == 1 and vals[0][0] == "list":
                    cur.extend(vals[0][1])
                else:
                    raise Unknown("mutation " + m)
                if mem in fs:
                    fs[mem] = ("list", tuple(cur))
                    env[rnode["base"]["path"]] = ("ctor", holder[1], holder[2], tuple(sorted(fs.items())))
                else:
                    args2 = list(holder[2])
                    args2[int(mem)] = ("list", tuple(cur))
                    env[rnode["base"]["path"]] = ("ctor", holder[1], tuple(args2)) + tuple(holder[3:])
                return UNIT
        if m in ("insert", "insert_str") and len(e["args"]) == 2 and is_node(rnode) and rnode["k"] == "Path" and rnode["path"] in env and env[rnode["path"]][0] == "str" and m not in self.builtins \
                and not isinstance(env[rnode["path"]], MutRef):
            at, v = self.ex(e["args"][0], env), self.ex(e["args"][1], env)
            if v[0] == "char":
                v = ("str", chr(v[1]))
            if at[0] != "int" or v[0] != "str":
                raise Unknown("String::insert arguments")
            cur_b = env[rnode["path"]][1].encode("utf-8")
            try:
                head, tail = cur_b[:at[1]].decode("utf-8"), cur_b[at[1]:].decode("utf-8")
            except UnicodeDecodeError:
                raise Unknown("String::insert not on a char boundary (panics)")
            if at[1] > len(cur_b):
                raise Unknown("String::insert past the end (panics)")
            env[rnode["path"]] = ("str", head + v[1] + tail)
            self._note_assigned(rnode["path"])
            return UNIT
        if m == "extend" and len(e["args"]) == 1 and is_node(rnode) and rnode["k"] == "Path" and rnode["path"] in env and env[rnode["path"]][0] == "str" and m not in self.builtins \
                and not isinstance(env[rnode["path"]], MutRef):
            v = self.ex(e["args"][0], env)
            if v[0] != "list" or not all(x[0] in ("str", "char") for x in v[1]):
                raise Unknown("String::extend with something that is not a list of chars / strings")
            env[rnode["path"]] = ("str", env[rnode["path"]][1] + "".join(chr(x[1]) if x[0] == "char" else x[1] for x in v[1]))
            self._note_assigned(rnode["path"])
            return UNIT
        if m in ("push_str", "push") and len(e["args"]) == 1 and is_node(rnode) and rnode["k"] == "Path" and rnode["path"] in env and env[rnode["path"]][0] == "str" and m not in self.builtins:
            v = self.ex(e["args"][0], env)
            if v[0] == "char":
                v = ("str", chr(v[1]))
            if v[0] != "str":
                raise Unknown("push of a non string onto a string")
            env[rnode["path"]] = ("str", env[rnode["path"]][1] + v[1])
            return UNIT
        if m in ("write_str", "push_str", "write_char", "push") and m not in self.builtins and len(e["args"]) == 1 and is_node(rnode) and rnode["k"] == "Path" \
                and not (rnode["path"] in env and env[rnode["path"]][0] == "list") and not (m in self.funcs and rnode["path"] in env and env[rnode["path"]][0] == "ctor"):
            v = self.ex(e["args"][0], env)
            self.out.append(v)
            return C("Ok", UNIT) if m.startswith("write") else UNIT
        if m == "get" and len(e["args"]) == 1 and is_node(e["args"][0]) and e["args"][0]["k"] == "Range":
            r0 = self.ex(rnode, env)
            if r0[0] == "str":
                rg = e["args"][0]
                lo = self.ex(rg["start"], env) if is_node(rg.get("start")) else I(0)
                hi = self.ex(rg["end"], env) if is_node(rg.get("end")) else None
                if lo[0] != "int" or (hi is not None and hi[0] != "int"):
                    raise Unknown("str::get bounds")
                z = None if hi is None else hi[1] + (1 if rg.get("inclusive") else 0)
                try:
                    return C("Some", ("str", _bytes_slice(r0[1], lo[1], z)))
                except Ret:
                    return C("None")
        if m in ("take", "replace") and m not in self.builtins and m not in self.mut_builtins and m not in self.funcs and len(e["args"]) == (0 if m == "take" else 1):
            tgt = self._mut_place(rnode, env)
            if tgt is not None:
                cur = self.ex(tgt, env)
                if cur[0] == "ctor" and cur[1] in ("Some", "None"):
                    newv = C("None") if m == "take" else C("Some", self.ex(e["args"][0], env))
                    self._place_store(tgt, newv, env)
                    return cur
        r = self.ex(rnode, env)
        args = [self.ex(a, env) for a in e["args"]]
        if isinstance(r, EntryRef) and m not in self.builtins:
            if m == "key" and not args:
                return r.key
            if m in ("get", "get_mut", "into_mut") and not args and r.val is not None:
                return r.val
            if m == "insert" and len(args) == 1:
                old_ = r.val
                r.write(args[0], env)
                return args[0] if old_ is None else old_
            if m in ("insert_entry",) and len(args) == 1:
                r.write(args[0], env)
                return r
            if m in ("remove", "remove_entry") and not args and r.val is not None:
                r.write(None, env)
                return r.val if m == "remove" else T(r.key, r.val)
            if m == "into_key" and not args:
                return r.key
            raise Unknown("map entry method " + m)
        if r == DEFAULT and m in ("iter", "into_iter", "iter_mut", "is_empty", "len", "first", "last", "get", "contains", "contains_key", "keys", "values"):
            r = L()   # the default of a slice / Vec / map is the empty collection
        if m in self.mut_builtins:
            newr, res = self.mut_builtins[m](r, args)
            self._assign_place(rnode, newr, env)
            return res
        res = self.builtins[m](r, args) if m in self.builtins else NotImplemented
        if res is not NotImplemented:          # (a model returns NotImplemented for a receiver it does not model: the code's own method of that name)
            if isinstance(res, tuple) and res and res[0] == "mutargs":
                # a modelled callee that writes through `&mut` arguments: {argument index: new value}
                for idx, nv in res[2].items():
                    tgt = e["args"][idx]
                    while is_node(tgt) and tgt["k"] in ("Ref", "Paren", "Unary"):
                        tgt = tgt["expr"]
                    self._assign_place(tgt, nv, env)
                return res[1]
            return res
        if r[0] == "str":
            v = self._str_method(m, r[1], args, e)
            if v is not None:
                return v
            if m in ("iter",) and not args:
                return L(*[I(b) for b in r[1].encode()])      # a str seen as `&[u8]` (AsRef<[u8]>): its bytes
        if m == "not" and r[0] == "bool" and not args:
            return B(not r[1])
        if m == "transpose" and r[0] == "ctor" and not args:
            if r[1] == "None":
                return C("Ok", C("None"))
            if r[1] == "Some" and r[2][0][0] == "ctor" and r[2][0][1] == "Ok":
                return C("Ok", C("Some", r[2][0][2][0]))
            if r[1] == "Some" and r[2][0][0] == "ctor" and r[2][0][1] == "Err":
                return r[2][0]
        if r[0] == "ctor" and r[1] in ("Ok", "Err"):
            if m == "map" and len(args) == 1:
                return C("Ok", self.apply(args[0], [r[2][0]])) if r[1] == "Ok" else r
            if m == "map_err" and len(args) == 1:
                return r if r[1] == "Ok" else C("Err", self.apply(args[0], [r[2][0]]))
            if m == "and_then" and len(args) == 1:
                return self.apply(args[0], [r[2][0]]) if r[1] == "Ok" else r
            if m in ("unwrap_or",) and len(args) == 1:
                return r[2][0] if r[1] == "Ok" else args[0]
            if m == "err" and not args:
                return C("Some", r[2][0]) if r[1] == "Err" and r[2] else C("None")
            if m == "is_ok_and" and len(args) == 1:
                return B(r[1] == "Ok" and self._b(self.apply(args[0], [r[2][0]])))
        if m == "collect" and r[0] == "list" and re.sub(r"\s+", "", e.get("turbofish") or "") in ("::<String>", "<String>", "::<std::string::String>") \
                and all(x[0] in ("char", "str") for x in r[1]):
            return ("str", "".join(chr(x[1]) if x[0] == "char" else x[1] for x in r[1]))
        if m == "collect" and (r[0] == "list" or r == DEFAULT) and re.match(r"^(::)?<(std::result::|core::result::)?Result<", re.sub(r"\s+", "", e.get("turbofish") or "")) and not (r[0] == "list" and r[1]):
            return C("Ok", L())        # no items: an empty collection, successfully
        if m == "collect" and r[0] == "list" and r[1] and all(x[0] == "ctor" and x[1] in ("Ok", "Err") for x in r[1]) and "Result" in (e.get("turbofish") or ""):
            for x in r[1]:
                if x[1] == "Err":
                    return x
            return C("Ok", L(*[x[2][0] for x in r[1]]))
        if r[0] in ("int",) and m in ("is_finite",) and not args:
            return B(True)
        if r[0] == "int" and m in ("pow", "min", "max", "saturating_sub", "saturating_add", "div_ceil", "wrapping_add", "abs_diff") and len(args) == 1 and args[0][0] == "int" and m not in self.builtins:
            a_, b_ = r[1], args[0][1]
            if m == "div_ceil" and b_ == 0:
                raise Ret(C("!panic"))
            return I({"pow": lambda: a_ ** b_, "min": lambda: min(a_, b_), "max": lambda: max(a_, b_), "saturating_sub": lambda: max(0, a_ - b_) if a_ >= 0 and b_ >= 0 else a_ - b_,
                      "saturating_add": lambda: a_ + b_, "div_ceil": lambda: -(-a_ // b_), "wrapping_add": lambda: a_ + b_, "abs_diff": lambda: abs(a_ - b_)}[m]())
        if r[0] == "int" and m in ("abs", "signum") and not args and m not in self.builtins:
            return I(abs(r[1]) if m == "abs" else (r[1] > 0) - (r[1] < 0))
        if r[0] == "atom" and r[1].startswith("float:") and m in ("fract", "trunc", "floor", "ceil", "abs", "round", "is_sign_negative", "is_sign_positive") and not args and _num(r) is not None \
                and r[1][6:] not in ("inf", "-inf", "nan"):
            import math as _m
            x_ = _num(r)
            if m in ("is_sign_negative", "is_sign_positive"):
                neg = _m.copysign(1.0, x_) < 0 or r[1][6:].startswith("-")
                return B(neg if m == "is_sign_negative" else not neg)
            return _float_atom({"fract": x_ - _m.trunc(x_), "trunc": float(_m.trunc(x_)), "floor": float(_m.floor(x_)), "ceil": float(_m.ceil(x_)), "abs": abs(x_), "round": float(round(x_))}[m])
        if r[0] == "atom" and r[1].startswith("float:") and m in ("is_finite", "is_nan", "is_infinite") and not args:
            x = r[1][6:]
            fin = x not in ("inf", "-inf", "nan")
            return B({"is_finite": fin, "is_nan": x == "nan", "is_infinite": x in ("inf", "-inf")}[m])
        if m == "to_string" and not args and r[0] == "ctor" and getattr(self, "display", None) is not None and m not in self.funcs:
            d_ = self.display(r)
            return ("str", dtable.render([("fmt", ("str", "{}"), (d_,))])) if d_[0] == "float" else d_
        if m == "to_string" and not args and r[0] == "tok":
            return ("str", r[1])          # an identifier's text
        if m == "to_string" and not args and r[0] in ("int", "bool"):
            return ("str", str(r[1]) if r[0] == "int" else ("true" if r[1] else "false"))
        if r[0] == "atom" and m in ("clone", "to_owned", "as_ref", "as_mut", "borrow", "borrow_mut", "deref", "into", "cloned", "copied") and not args:
            return r
        if r[0] == "atom" and not r[1].startswith("expr:") and not r[1].startswith("lit:"):
            return A("%s.%s" % (r[1], m))
        tyname = getattr(self, "type_of_ctor", {}).get(r[1]) if r[0] == "ctor" else None
        if tyname and ("%s::%s" % (tyname, m)) in self.funcs:
            v = self.call_fn("%s::%s" % (tyname, m), [r] + args)
            self._write_back([rnode] + list(e["args"]), env)
            return v
        if m in self.funcs and r[0] != "list" and not (m in ("map", "iter") and r[0] in ("ctor",) and r[1] in ("Some", "None")) and self._impl_fits(self.funcs[m], r):
            v = self.call_fn(m, [r] + args)
            self._write_back([rnode] + list(e["args"]), env)
            return v
        if m in ("iter", "into_iter") and not args and r[0] == "ctor" and r[1] in ("Some", "None") and len(r[2]) <= 1 and m not in self.builtins and not isinstance(r, (EntryRef, FalseOrNone)):
            return L(*r[2][:1])          # an Option iterates over its payload: from here on it is a sequence of 0 or 1 items
        if m in ("iter", "iter_mut", "into_iter", "as_slice", "as_mut_slice", "as_ref", "as_mut", "as_deref_mut", "by_ref", "deref", "deref_mut", "borrow", "borrow_mut", "get_mut", "clone", "cloned", "copied", "to_owned",
                 "into", "collect", "to_token_stream", "as_deref", "peekable", "to_vec", "values") and not args:
            if m == "values" and r[0] == "list":
                return L(*[x[1][1] if x[0] == "tuple" and len(x[1]) == 2 else x for x in r[1]])
            return r
        if r[0] in ("list", "str", "int") and m in ("into_inner", "into_boxed_slice", "into_boxed_str", "take") and not args and m not in self.builtins:
            return r        # RefCell / Cell / Mutex payloads are modelled as the value itself
        if r[0] == "list" and m in ("capacity",) and not args:
            return I(len(r[1]))
        if r[0] in ("list", "str") and m in ("reserve", "reserve_exact", "shrink_to_fit", "shrink_to", "try_reserve") and m not in self.builtins:
            return UNIT if m != "try_reserve" else C("Ok", UNIT)
        if r[0] == "list":
            xs = list(r[1])
            if m in ("sum", "product") and not args and all(x[0] == "int" for x in xs):
                tot = 0 if m == "sum" else 1
                for x in xs:
                    tot = tot + x[1] if m == "sum" else tot * x[1]
                return I(tot)
            if m == "nth" and len(args) == 1 and args[0][0] == "int":
                return C("Some", xs[args[0][1]]) if 0 <= args[0][1] < len(xs) else C("None")
            if m in ("max", "min") and not args and all(x[0] == "int" for x in xs):
                return C("Some", (max if m == "max" else min)(xs, key=lambda x: x[1])) if xs else C("None")
            if m == "step_by" and len(args) == 1 and args[0][0] == "int" and args[0][1] > 0:
                return L(*xs[::args[0][1]])
            if m == "partition" and len(args) == 1:
                yes, no = [], []
                for x in xs:
                    (yes if self._b(self.apply(args[0], [x])) else no).append(x)
                return T(L(*yes), L(*no))
            if m in ("max_by_key", "min_by_key") and len(args) == 1:
                if not xs:
                    return C("None")
                ks = [self.apply(args[0], [x]) for x in xs]
                if not all(k_[0] == "int" for k_ in ks) and not all(k_[0] == "str" for k_ in ks):
                    raise Unknown("%s with keys that are not all integers / strings" % m)
                best = 0
                for i_ in range(1, len(xs)):
                    if (m == "max_by_key" and ks[i_][1] >= ks[best][1]) or (m == "min_by_key" and ks[i_][1] < ks[best][1]):
                        best = i_          # (max: the last of equal maxima; min: the first of equal minima - as std)
                return C("Some", xs[best])
            if m == "windows" and len(args) == 1 and args[0][0] == "int" and args[0][1] > 0:
                return L(*[L(*xs[i_:i_ + args[0][1]]) for i_ in range(0, len(xs) - args[0][1] + 1)])
            if m == "any":
                return B(any(self._b(self.apply(args[0], [x])) for x in xs))
            if m == "all":
                return B(all(self._b(self.apply(args[0], [x])) for x in xs))
            if m == "map":
                return L(*[self.apply(args[0], [x]) for x in xs])
            if m == "flat_map":
                out = []
                for x in xs:
                    v = self.apply(args[0], [x])
                    if v[0] == "list":
                        out.extend(v[1])
                    elif v[0] == "ctor" and v[1] in ("Some", "None"):
                        out.extend(v[2])
                    else:
                        raise Unknown("flat_map to a non collection")
                return L(*out)
            if m == "flatten" and not args:
                out = []
                for v in xs:
                    if v[0] == "list":
                        out.extend(v[1])
                    elif v[0] == "ctor" and v[1] in ("Some", "None", "Ok", "Err"):
                        out.extend(v[2] if v[1] in ("Some", "Ok") else ())
                    else:
                        raise Unknown("flatten of a non collection")
                return L(*out)
            if m == "filter":
                return L(*[x for x in xs if self._b(self.apply(args[0], [x]))])
            if m == "filter_map":
                out = []
                for x in xs:
                    v = self.apply(args[0], [x])
                    if v[0] == "ctor" and v[1] == "Some":
                        out.append(v[2][0])
                return L(*out)
            if m == "find":
                for x in xs:
                    if self._b(self.apply(args[0], [x])):
                        return C("Some", x)
                return C("None")
            if m == "find_map":
                for x in xs:
                    v = self.apply(args[0], [x])
                    if v[0] == "ctor" and v[1] == "Some":
                        return v
                return C("None")
            if m == "position":
                for i, x in enumerate(xs):
                    if self._b(self.apply(args[0], [x])):
                        return C("Some", I(i))
                return C("None")
            if m == "enumerate":
                return L(*[T(I(i), x) for i, x in enumerate(xs)])
            if m == "map_while":
                out = []
                for x in xs:
                    v = self.apply(args[0], [x])
                    if not (v[0] == "ctor" and v[1] == "Some"):
                        break
                    out.append(v[2][0])
                return L(*out)
            if m == "take_while":
                out = []
                for x in xs:
                    if not self._b(self.apply(args[0], [x])):
                        break
                    out.append(x)
                return L(*out)
            if m == "skip_while":
                i = 0
                while i < len(xs) and self._b(self.apply(args[0], [xs[i]])):
                    i += 1
                return L(*xs[i:])
            if m in ("join", "concat") and all(x[0] == "str" for x in xs) and (not args or args[0][0] in ("str", "char")):
                sep = "" if not args else (args[0][1] if args[0][0] == "str" else chr(args[0][1]))
                return ("str", sep.join(x[1] for x in xs))
            if m in ("last", "last_mut") and not args:
                return C("Some", xs[-1]) if xs else C("None")
            if m in ("first", "first_mut") and not args:
                return C("Some", xs[0]) if xs else C("None")
            if m == "next" and not args:
                return C("Some", xs[0]) if xs else C("None")
            if m == "rev":
                return L(*reversed(xs))
            if m == "unzip" and all(x[0] == "tuple" and len(x[1]) == 2 for x in xs):
                return T(L(*[x[1][0] for x in xs]), L(*[x[1][1] for x in xs]))
            if m == "skip" and args[0][0] == "int":
                return L(*xs[args[0][1]:])
            if m == "take" and args[0][0] == "int":
                return L(*xs[:args[0][1]])
            if m == "chain" and args[0][0] == "list":
                return L(*(xs + list(args[0][1])))
            if m == "chain" and args[0][0] == "ctor" and args[0][1] in ("Some", "None"):
                return L(*(xs + list(args[0][2])))
            if m == "zip" and args[0][0] == "list":
                return L(*[T(a, b) for a, b in zip(xs, args[0][1])])
            if m in ("chunks", "chunks_exact") and args and args[0][0] == "int" and args[0][1] > 0:
                n = args[0][1]
                out = [L(*xs[i:i + n]) for i in range(0, len(xs), n)]
                if m == "chunks_exact":
                    out = [c for c in out if len(c[1]) == n]
                return L(*out)
            if m == "len" or m == "count":
                return I(len(xs))
            if m == "is_empty":
                return B(not xs)
            if m == "first":
                return C("Some", xs[0]) if xs else C("None")
            if m == "last":
                return C("Some", xs[-1]) if xs else C("None")
            if m == "split_last":
                return C("Some", T(xs[-1], L(*xs[:-1]))) if xs else C("None")
            if m == "split_first":
                return C("Some", T(xs[0], L(*xs[1:]))) if xs else C("None")
            if m in ("fold", "rfold") and len(args) == 2:
                acc = args[0]
                for x in (xs if m == "fold" else reversed(xs)):
                    acc = self.apply(args[1], [acc, x])
                return acc
            if m == "try_fold" and len(args) == 2:
                acc = args[0]
                wrap = None
                for x in xs:
                    v2 = self.apply(args[1], [acc, x])
                    if v2[0] == "ctor" and v2[1] in ("Err", "None"):
                        return v2
                    if v2[0] == "ctor" and v2[1] in ("Ok", "Some") and v2[2]:
                        acc = v2[2][0]
                        wrap = v2[1]
                    else:
                        raise Unknown("try_fold step")
                if wrap is None:
                    # no step ran: the wrapper (Option / Result) is what the closure's success value would be
                    body_t = show(args[1][1]["body"]) if args[1][0] == "closure" else ""
                    if re.search(r"\bSome\b|\bNone\b", body_t) and not re.search(r"\bOk\b|\bErr\b", body_t):
                        wrap = "Some"
                    elif re.search(r"\bOk\b|\bErr\b|\?", body_t) and not re.search(r"\bSome\b|\bNone\b", body_t):
                        wrap = "Ok"
                    else:
                        raise Unknown("try_fold over nothing: cannot tell Option from Result")
                return C(wrap, acc)
            if m == "reduce" and len(args) == 1 and m not in self.funcs:
                if not xs:
                    return C("None")
                acc = xs[0]
                for x in xs[1:]:
                    acc = self.apply(args[0], [acc, x])
                return C("Some", acc)
            if m == "contains":
                return B(args[0] in xs)
            if m == "for_each":
                for x in xs:
                    self.apply(args[0], [x])
                return UNIT
            if m == "try_for_each":
                for x in xs:
                    v = self.apply(args[0], [x])
                    if v[0] == "ctor" and v[1] == "Err":
                        return v
                return C("Ok", UNIT)
            pairs = bool(xs) and all(x[0] == "tuple" and len(x[1]) == 2 for x in xs)
            if m in ("keys", "into_keys") and (pairs or not xs):
                return L(*[x[1][0] for x in xs])
            if m in ("into_values", "values_mut") and (pairs or not xs):
                return L(*[x[1][1] for x in xs])
            if m == "entry" and len(args) == 1 and (pairs or not xs):
                hit = [x for x in xs if x[1][0] == args[0]]
                return C("Entry", args[0], C("Some", hit[0][1][1]) if hit else C("None"))
            if m in ("get", "get_mut", "remove") and not xs and len(args) == 1:
                return C("None")      # empty map / Vec
            if m in ("get", "get_mut") and pairs and args and args[0][0] != "int":
                for x in xs:
                    if x[1][0] == args[0]:
                        return C("Some", x[1][1])
                return C("None")
            if m == "contains_key" and (pairs or not xs):
                return B(any(x[1][0] == args[0] for x in xs))
            if m == "difference" and args[0][0] == "list":
                return L(*[x for x in xs if x not in args[0][1]])
            if m == "intersection" and args[0][0] == "list":
                return L(*[x for x in xs if x in args[0][1]])
            if m == "get" and args[0][0] == "int":
                return C("Some", xs[args[0][1]]) if 0 <= args[0][1] < len(xs) else C("None")
        if r[0] == "ctor" and r[1] == "Entry" and len(r[2]) == 2 and m in ("or_default", "or_insert", "or_insert_with"):
            if r[2][1][1] == "Some":
                return r[2][1][2][0]
            if m == "or_insert" and args:
                return args[0]
            if m == "or_insert_with" and args:
                return self.apply(args[0], [])
            dflt = getattr(self, "default_value", None)
            return dflt if dflt is not None else DEFAULT
        if r[0] == "ctor" and r[1] in ("Some", "None"):
            some = r[1] == "Some"
            if m == "map":
                return C("Some", self.apply(args[0], [r[2][0]])) if some else r
            if m == "and_then":
                return self.apply(args[0], [r[2][0]]) if some else r
            if m == "unwrap_or":
                return r[2][0] if some else args[0]
            if m == "unwrap_or_else":
                return r[2][0] if some else self.apply(args[0], [])
            if m == "unwrap_or_default" and not args:
                return r[2][0] if some else DEFAULT
            if m == "flatten" and not args:
                return r[2][0] if some and r[2][0][0] == "ctor" and r[2][0][1] in ("Some", "None") else (r if not some else r)
            if m in ("iter", "into_iter") and not args:
                return L(*r[2][:1]) if some else L()
            if m == "chain" and len(args) == 1 and args[0][0] == "list":
                return L(*(list(r[2][:1] if some else []) + list(args[0][1])))
            if m == "chain" and len(args) == 1 and args[0][0] == "ctor" and args[0][1] in ("Some", "None") and len(args[0][2]) <= 1:
                return L(*(list(r[2][:1] if some else []) + list(args[0][2][:1])))
            if m == "map_or":
                return self.apply(args[1], [r[2][0]]) if some else args[0]
            if m == "map_or_else":
                return self.apply(args[1], [r[2][0]]) if some else self.apply(args[0], [])
            if m == "is_some_and":
                return B(some and self._b(self.apply(args[0], [r[2][0]])))
            if m == "is_none_or":
                return B((not some) or self._b(self.apply(args[0], [r[2][0]])))
            if m == "or_else" and len(args) == 1:
                return r if some else self.apply(args[0], [])
            if m == "xor" and len(args) == 1 and args[0][0] == "ctor" and args[0][1] in ("Some", "None"):
                o = args[0][1] == "Some"
                return r if some and not o else (args[0] if o and not some else C("None"))
            if m == "zip" and len(args) == 1 and args[0][0] == "ctor" and args[0][1] in ("Some", "None"):
                return C("Some", T(r[2][0], args[0][2][0])) if some and args[0][1] == "Some" else C("None")
            if m in ("inspect",) and len(args) == 1:
                if some:
                    self.apply(args[0], [r[2][0]])
                return r
            if m == "is_some":
                return B(some)
            if m == "is_none":
                return B(not some)
            if m == "or":
                return r if some else args[0]
            if m == "filter":
                return r if some and self._b(self.apply(args[0], [r[2][0]])) else C("None")
            if m in ("unwrap", "expect"):
                if some:
                    return r[2][0]
                raise Ret(C("!panic"))
            if m == "ok_or" or m == "ok_or_else":
                return C("Ok", r[2][0]) if some else C("Err", args[0] if m == "ok_or" else self.apply(args[0], []))
        if r[0] == "ctor" and r[1] in ("Ok", "Err"):
            if m in ("unwrap", "expect", "unwrap_or_else", "unwrap_or_default") and r[1] == "Ok" and r[2]:
                return r[2][0]
            if m in ("unwrap", "expect") and r[1] == "Err":
                raise Ret(C("!panic"))
            if m == "unwrap_or_default" and r[1] == "Err" and not args:
                return DEFAULT
            if m == "unwrap_or_else" and r[1] == "Err" and len(args) == 1:
                return self.apply(args[0], list(r[2][:1]))
            if m == "unwrap_or" and r[1] == "Err" and len(args) == 1:
                return args[0]
            if m == "is_ok":
                return B(r[1] == "Ok")
            if m == "is_err":
                return B(r[1] == "Err")
            if m == "ok":
                return C("Some", r[2][0]) if r[1] == "Ok" else C("None")
        if r[0] == "char" and not args:
            ch = chr(r[1])
            if m == "len_utf8":
                return I(len(ch.encode()))
            if m in ("is_whitespace", "is_alphabetic", "is_numeric", "is_alphanumeric", "is_ascii_digit", "is_ascii_alphabetic", "is_ascii", "is_ascii_whitespace", "is_control"):
                return B({"is_whitespace": ch.isspace(), "is_alphabetic": ch.isalpha(), "is_numeric": ch.isnumeric(), "is_alphanumeric": ch.isalnum(),
                          "is_ascii_digit": ch in "0123456789", "is_ascii_alphabetic": ch.isascii() and ch.isalpha(), "is_ascii": ch.isascii(),
                          "is_ascii_whitespace": ch in " \t\n\r\x0c", "is_control": ord(ch) < 32 or 127 <= ord(ch) < 160}[m])
            if m == "to_string":
                return ("str", ch)
        if r[0] == "bool" and m == "then":
            return C("Some", self.apply(args[0], [])) if r[1] else C("None")
        if r[0] == "bool" and m == "then_some":
            return C("Some", args[0]) if r[1] else C("None")
        if r[0] == "int" and not args and m in ("is_ascii_alphabetic", "is_ascii_digit", "is_ascii_alphanumeric", "is_ascii_whitespace", "is_ascii_uppercase", "is_ascii_lowercase",
                                                "is_ascii_punctuation", "is_ascii_graphic", "is_ascii_hexdigit", "is_ascii_control", "is_ascii") and 0 <= r[1] < 256:
            ch = chr(r[1])
            a_ = r[1] < 128
            return B({"is_ascii_alphabetic": a_ and ch.isalpha(), "is_ascii_digit": ch in "0123456789", "is_ascii_alphanumeric": a_ and ch.isalnum(), "is_ascii_whitespace": ch in " \t\n\r\x0c",
                      "is_ascii_uppercase": a_ and ch.isupper(), "is_ascii_lowercase": a_ and ch.islower(), "is_ascii_punctuation": a_ and ch in "!\"#$%&'()*+,-./:;<=>?@[\\]^_`{|}~",
                      "is_ascii_graphic": 33 <= r[1] <= 126, "is_ascii_hexdigit": ch in "0123456789abcdefABCDEF", "is_ascii_control": r[1] < 32 or r[1] == 127, "is_ascii": a_}[m])
        if r[0] == "int" and m == "div_ceil" and len(args) == 1 and args[0][0] == "int" and args[0][1] != 0:
            return I(-(-r[1] // args[0][1]))
        if r[0] == "int" and m in ("min", "max", "saturating_sub", "checked_sub", "wrapping_add") and len(args) == 1 and args[0][0] == "int":
            a, b2 = r[1], args[0][1]
            if m == "checked_sub":
                return C("Some", I(a - b2)) if a - b2 >= 0 else C("None")
            return I({"min": min(a, b2), "max": max(a, b2), "saturating_sub": max(0, a - b2), "wrapping_add": a + b2}[m])
        if m in ("cmp", "partial_cmp") and len(args) == 1 and r[0] in ("int", "char", "str", "bool", "tuple") and args[0][0] == r[0]:
            ka, kb = self._key(r), self._key(args[0])
            o = C("Less") if ka < kb else (C("Greater") if ka > kb else C("Equal"))
            return o if m == "cmp" else C("Some", o)
        if r[0] == "ctor" and r[1] in ("Less", "Equal", "Greater") and not r[2]:
            if m == "reverse" and not args:
                return C({"Less": "Greater", "Greater": "Less", "Equal": "Equal"}[r[1]])
            if m == "then" and len(args) == 1:
                return r if r[1] != "Equal" else args[0]
            if m == "then_with" and len(args) == 1:
                return r if r[1] != "Equal" else self.apply(args[0], [])
            if m in ("is_lt", "is_gt", "is_eq", "is_ne", "is_le", "is_ge") and not args:
                c = self._ordering(r)
                return B({"is_lt": c < 0, "is_gt": c > 0, "is_eq": c == 0, "is_ne": c != 0, "is_le": c <= 0, "is_ge": c >= 0}[m])
        if r[0] in ("int", "char") and m in ("eq", "ne", "lt", "le", "gt", "ge") and len(args) == 1 and args[0][0] in ("int", "char"):
            x, y = r[1], args[0][1]
            return B({"eq": x == y, "ne": x != y, "lt": x < y, "le": x <= y, "gt": x > y, "ge": x >= y}[m])
        if m == "contains" and r[0] == "ctor" and r[1].startswith("Range"):
            raise Unknown("RangeBounds::contains")
        if r[0] == "atom" and not r[1].startswith("expr:"):
            # an opaque value: the result is named after the receiver and the method (arguments are not interpreted)
            return A("%s.%s" % (r[1], m))
        if r[0] == "ctor" and PROGRAM is not None:
            fn = PROGRAM.method(r[1], m, self._cur_file(), r)
            if fn is not None and len(fn.node["sig"]["inputs"]) == len(args) + 1:
                v = self._call_program_fn(fn, [r] + args)
                self._write_back([rnode] + list(e["args"]), env)
                return v
        raise Unknown("method %s on %s" % (m, r[:2]))

    def _str_method(self, m, t, args, e):
        a0 = args[0] if args else None
        sa = (chr(a0[1]) if a0 and a0[0] == "char" else (a0[1] if a0 and a0[0] == "str" else None))
        if m == "trim" and not args:
            return ("str", t.strip())
        if m == "is_ascii" and not args:
            return B(t.isascii())
        if m in ("trim_ascii", "trim_ascii_start", "trim_ascii_end") and not args:
            ws = " \t\n\x0c\r"
            return ("str", t.strip(ws) if m == "trim_ascii" else (t.lstrip(ws) if m == "trim_ascii_start" else t.rstrip(ws)))
        if m == "split_whitespace" and not args:
            return L(*[("str", x) for x in t.split()])
        if m == "split_ascii_whitespace" and not args:
            return L(*[("str", x) for x in re.split(r"[ \t\n\x0c\r]+", t) if x])
        if m == "rsplit" and sa is not None and len(args) == 1 and sa != "":
            return L(*[("str", x) for x in reversed(t.split(sa))])
        if m in ("splitn", "rsplitn") and len(args) == 2 and args[0][0] == "int" and sa is None:
            sb = chr(args[1][1]) if args[1][0] == "char" else (args[1][1] if args[1][0] == "str" else None)
            if sb is not None and args[0][1] >= 1:
                parts = t.split(sb, args[0][1] - 1) if m == "splitn" else list(reversed(t.rsplit(sb, args[0][1] - 1)))
                return L(*[("str", x) for x in parts])
        if m in ("trim_matches", "trim_start_matches", "trim_end_matches") and len(args) == 1:
            a0_ = args[0]
            chars = None
            if a0_[0] == "char":
                chars = chr(a0_[1])
            elif a0_[0] == "list" and all(x[0] == "char" for x in a0_[1]):
                chars = "".join(chr(x[1]) for x in a0_[1])
            if chars is not None:
                return ("str", {"trim_matches": t.strip, "trim_start_matches": t.lstrip, "trim_end_matches": t.rstrip}[m](chars))
            if a0_[0] == "str" and a0_[1]:
                pat_, u = a0_[1], t
                if m in ("trim_matches", "trim_start_matches"):
                    while u.startswith(pat_):
                        u = u[len(pat_):]
                if m in ("trim_matches", "trim_end_matches"):
                    while u.endswith(pat_):
                        u = u[:len(u) - len(pat_)]
                return ("str", u)
        if m in ("to_uppercase", "to_lowercase", "to_ascii_uppercase", "to_ascii_lowercase") and not args:
            return ("str", t.upper() if "upper" in m else t.lower())
        if m in ("replace", "replacen") and len(args) >= 2 and args[0][0] in ("str", "char") and args[1][0] in ("str", "char"):
            fr_ = args[0][1] if args[0][0] == "str" else chr(args[0][1])
            to_ = args[1][1] if args[1][0] == "str" else chr(args[1][1])
            if m == "replace":
                return ("str", t.replace(fr_, to_))
            if len(args) == 3 and args[2][0] == "int":
                return ("str", t.replace(fr_, to_, args[2][1]))
        if m == "eq_ignore_ascii_case" and len(args) == 1 and args[0][0] == "str":
            fold = lambda x: "".join(c.lower() if c.isascii() else c for c in x)  # noqa: E731 - ASCII letters only, as in Rust
            return B(fold(t) == fold(args[0][1]))
        if m == "repeat" and len(args) == 1 and args[0][0] == "int":
            return ("str", t * args[0][1])
        if m == "trim_start" and not args:
            return ("str", t.lstrip())
        if m == "trim_end" and not args:
            return ("str", t.rstrip())
        if m == "is_empty" and not args:
            return B(t == "")
        if m == "len" and not args:
            return I(len(t.encode()))
        if m in ("to_string", "to_owned", "into", "as_str", "as_ref", "clone") and not args:
            return ("str", t)
        if m == "chars" and not args:
            return L(*[("char", ord(c)) for c in t])
        if m == "char_indices" and not args:
            out, off = [], 0
            for c in t:
                out.append(T(I(off), ("char", ord(c))))
                off += len(c.encode())
            return L(*out)
        if m == "bytes" and not args:
            return L(*[I(x) for x in t.encode()])
        pat_ = None
        if a0 is not None and a0[0] == "list" and a0[1] and all(x[0] == "char" for x in a0[1]):
            pat_ = [chr(x[1]) for x in a0[1]]
        elif a0 is not None and a0[0] in ("char", "str"):
            pat_ = chr(a0[1]) if a0[0] == "char" else a0[1]
        if m in ("find", "rfind") and pat_ is not None and len(args) == 1:
            if m == "find":
                i = _bfind(t, pat_)
            else:
                cands = [t.rfind(p_) for p_ in (pat_ if isinstance(pat_, list) else [pat_])]
                i = max(cands) if max(cands) >= 0 else None
                i = len(t[:i].encode()) if i is not None else None
            return C("Some", I(i)) if i is not None else C("None")
        if m == "match_indices" and pat_ is not None and not isinstance(pat_, list) and pat_ != "":
            out, start = [], 0
            while True:
                i = t.find(pat_, start)
                if i < 0:
                    break
                out.append(T(I(len(t[:i].encode())), ("str", pat_)))
                start = i + len(pat_)
            return L(*out)
        if m == "split_at" and len(args) == 1 and args[0][0] == "int":
            return T(("str", _bytes_slice(t, 0, args[0][1])), ("str", _bytes_slice(t, args[0][1], None)))
        if m == "is_char_boundary" and len(args) == 1 and args[0][0] == "int":
            try:
                t.encode()[:args[0][1]].decode()
                return B(0 <= args[0][1] <= len(t.encode()))
            except UnicodeDecodeError:
                return B(False)
        if sa is not None:
            if m == "contains":
                return B(sa in t)
            if m == "starts_with":
                return B(t.startswith(sa))
            if m == "ends_with":
                return B(t.endswith(sa))
            if m == "split":
                return L(*[("str", x) for x in t.split(sa)])
            if m == "split_once":
                i = t.find(sa)
                return C("Some", T(("str", t[:i]), ("str", t[i + len(sa):]))) if i >= 0 else C("None")
            if m == "rsplit_once":
                i = t.rfind(sa)
                return C("Some", T(("str", t[:i]), ("str", t[i + len(sa):]))) if i >= 0 else C("None")
            if m == "strip_prefix":
                return C("Some", ("str", t[len(sa):])) if t.startswith(sa) else C("None")
            if m == "strip_suffix":
                return C("Some", ("str", t[:len(t) - len(sa)])) if t.endswith(sa) else C("None")
        if m in ("bytes", "as_bytes", "into_bytes") and not args:
            return L(*[I(b) for b in t.encode()])
        if m == "parse" and not args:
            ty = re.sub(r"\s+", "", (e or {}).get("turbofish") or "") if isinstance(e, dict) else ""
            ty = ty.strip("<>:")
            if ty in ("f64", "f32"):
                try:
                    fv = float(t) if re.match(r"^[+-]?(\d+\.?\d*([eE][+-]?\d+)?|\.\d+([eE][+-]?\d+)?|inf|infinity|nan)$", t, re.I) else None
                except ValueError:
                    fv = None
                return C("Ok", A("float:%r" % fv)) if fv is not None else C("Err", A("parse-error"))
            if ty[:1] == "u" and ty[1:] in ("8", "16", "32", "64", "128", "size"):
                bits = {"size": 64}.get(ty[1:]) or int(ty[1:])
                return C("Ok", I(int(t))) if re.match(r"^\+?\d+$", t) and int(t) < 2 ** bits else C("Err", A("parse-error"))
            if ty[:1] == "i" and ty[1:] in ("8", "16", "32", "64", "128", "size"):
                bits = {"size": 64}.get(ty[1:]) or int(ty[1:])
                return C("Ok", I(int(t))) if re.match(r"^[+-]?\d+$", t) and -2 ** (bits - 1) <= int(t) < 2 ** (bits - 1) else C("Err", A("parse-error"))
            if re.match(r"^[+-]?\d+$", t):
                return C("Ok", I(int(t)))
            return C("Err", A("parse-error"))
        return None

    def _b(self, v):
        if isinstance(v, FalseOrNone):
            return False
        if v[0] != "bool":
            raise Unknown("predicate did not yield a boolean")
        return v[1]

    # ---------------------------------------------------------------- patterns: named fields
    def pat(self, p, v, env):
        if p["k"] == "PPath" and p["path"] in self.consts:
            return {} if self.consts[p["path"]] == v else None      # a named constant used as a pattern
        if p["k"] == "PIdent" and "sub" not in p and p["name"] in self.consts and p["name"].isupper():
            return {} if self.consts[p["name"]] == v else None
        if p["k"] == "PStruct":
            if v[0] != "ctor":
                raise Unknown("struct pattern on non constructor")
            pname_ = p["path"].split("::")[-1]
            if p["path"] == "Self" and (env.get("#Self") or (getattr(self, "_impl_stack", None) and self._impl_stack[-1])):
                pname_ = env["#Self"][1] if env.get("#Self") else self._impl_stack[-1]          # `let Self { a, b, .. } = self;`
            if v[1] != pname_:
                return None
            fs = fields_of(v)
            out = {}
            for f in p["fields"]:
                if f["member"] not in fs:
                    if f["member"].isdigit() and int(f["member"]) < len(v[2]):
                        fv = v[2][int(f["member"])]
                    else:
                        raise Unknown("field %s not modelled" % f["member"])
                else:
                    fv = fs[f["member"]]
                b = self.pat(f["pat"], fv, env)
                if b is None:
                    return None
                out.update(b)
            return out
        if p["k"] == "PIdent" and p["name"] in ("true", "false"):
            return {} if v == B(p["name"] == "true") else None
        if p["k"] == "PLit" and p["text"].strip() in ("true", "false"):
            return {} if v == B(p["text"].strip() == "true") else None
        if p["k"] == "PSlice":
            if v[0] != "list":
                raise Unknown("slice pattern on non list")
            elems = p["elems"]
            rest = [i for i, x in enumerate(elems) if x["k"] == "PRest" or (x["k"] == "PIdent" and "sub" in x and x["sub"]["k"] == "PRest")]
            if not rest:
                if len(elems) != len(v[1]):
                    return None
                return self._seq(elems, v[1], env)
            i = rest[0]
            if len(v[1]) < len(elems) - 1:
                return None
            out = {}
            b1 = self._seq(elems[:i], v[1][:i], env)
            n_after = len(elems) - i - 1
            b2 = self._seq(elems[i + 1:], v[1][len(v[1]) - n_after:] if n_after else (), env)
            if b1 is None or b2 is None:
                return None
            out.update(b1)
            out.update(b2)
            if elems[i]["k"] == "PIdent":
                out[elems[i]["name"]] = ("list", tuple(v[1][i:len(v[1]) - n_after]))
            return out
        return super().pat(p, v, env)

    def _flush_aliases(self, aliases, env):
        for name, (tgt, seen) in list(aliases.items()):
            cur = env.get(name)
            if cur is not None and cur != seen:
                try:
                    self._place_store(tgt, cur, env)
                    aliases[name] = (tgt, cur)
                except Unknown:
                    aliases.pop(name, None)

    def block(self, b, env):
        outer = env
        env = Scope(env)
        shadow = set()
        aliases = {}
        last = UNIT
        # fn items declared in this block are in scope in the whole block (and shadow same-named functions outside)
        for st in b["stmts"]:
            if st["k"] == "Fn" and st.get("body") is not None and st.get("name"):
                import astlib as _astlib
                env[st["name"]] = ("localfn", _astlib.Fn(st, self._cur_file() or ""))
                shadow.add(st["name"])
        try:
            for st in b["stmts"]:
                k = st["k"]
                if k == "Let":
                    if "init" not in st:
                        continue
                    ini = st["init"]
                    while is_node(ini) and ini["k"] == "Paren":
                        ini = ini["expr"]
                    sfm = ini
                    while is_node(sfm) and sfm["k"] in ("Try",) or (is_node(sfm) and sfm["k"] == "MethodCall" and sfm["method"] in ("unwrap", "expect", "unwrap_at")):
                        sfm = sfm["expr"] if sfm["k"] == "Try" else sfm["receiver"]
                    if is_node(sfm) and sfm["k"] == "MethodCall" and sfm["method"] in ("split_first_mut",) and not sfm["args"] and is_node(sfm["receiver"]) and sfm["receiver"]["k"] == "Path" \
                            and sfm["receiver"]["path"] in env and env[sfm["receiver"]["path"]][0] == "list" and not isinstance(env[sfm["receiver"]["path"]], MutRef) and env[sfm["receiver"]["path"]][1]:
                        # `let Some((first, rest)) = v.split_first_mut()`: first is a view of v[0], rest a view of v[1..]
                        vname = sfm["receiver"]["path"]
                        pp0 = st["pat"]
                        while pp0["k"] in ("PType", "PRef"):
                            pp0 = pp0["pat"]
                        tup = pp0["elems"][0] if pp0["k"] == "PTupleStruct" and pp0.get("elems") else pp0
                        if tup["k"] == "PTuple" and len(tup["elems"]) == 2 and all(x["k"] == "PIdent" for x in tup["elems"]):
                            n0, n1 = tup["elems"][0]["name"], tup["elems"][1]["name"]
                            env[n0] = env[vname][1][0]
                            env[n1] = MutRef(env, vname, 1, None)
                            shadow |= {n0, n1}
                            ln = st.get("line", 0)
                            aliases[n0] = ({"k": "MethodCall", "method": "unwrap", "args": [], "line": ln,
                                            "receiver": {"k": "MethodCall", "method": "get_mut", "line": ln, "receiver": {"k": "Path", "path": vname, "line": ln},
                                                         "args": [{"k": "Lit", "text": "0", "int": 0, "line": ln}]}}, env[n0])
                            last = UNIT
                            continue
                    v = self.ex(st["init"], env)
                    if is_node(ini) and ini["k"] == "MethodCall" and ini["method"] == "iter_mut" and not ini["args"] and is_node(ini["receiver"]) and ini["receiver"]["k"] == "Path" \
                            and ini["receiver"]["path"] in env and env[ini["receiver"]["path"]][0] == "list" and not isinstance(env[ini["receiver"]["path"]], MutRef) and "iter_mut" not in self.builtins:
                        v = MutRef(env, ini["receiver"]["path"], 0, None)
                    bd = self.pat(st["pat"], v, env)
                    if bd is not None and st["pat"].get("k") in ("PIdent", "PType"):
                        pk_ = st["pat"]
                        while pk_.get("k") == "PType":
                            pk_ = pk_["pat"]
                        if pk_.get("k") == "PIdent":
                            kd_ = _var_kind(ini)
                            if kd_ is None:
                                env.pop("#kind:" + pk_["name"], None)
                            else:
                                env["#kind:" + pk_["name"]] = ("str", kd_)
                    if bd is None:
                        if "else" in st:
                            self.ex(st["else"], env)
                            raise Unknown("let-else body fell through")
                        raise Unknown("irrefutable let did not match")
                    env.update(bd)
                    shadow |= set(bd)
                    last = UNIT
                    # `let x = map.entry(k).or_default()` / `vec.last_mut().unwrap()` / `&mut s.field`: x is a view of
                    # that storage; what later statements do to x is written through (see _flush_aliases)
                    pp = st["pat"]
                    while pp["k"] in ("PType", "PRef"):
                        pp = pp["pat"]
                    if pp["k"] == "PIdent" and "sub" not in pp:
                        tgt = self._mut_place(st["init"], env) if is_node(st["init"]) else None
                        init = st["init"]
                        while is_node(init) and init["k"] == "Paren":
                            init = init["expr"]
                        by_ref = is_node(init) and ((init["k"] == "Ref" and init.get("mut")) or init["k"] in ("MethodCall", "Try"))
                        nx = init
                        while is_node(nx) and nx["k"] == "MethodCall" and nx["method"] in ("unwrap", "expect", "unwrap_at", "unwrap_or_else"):
                            nx = nx["receiver"]
                        if is_node(nx) and nx["k"] == "MethodCall" and nx["method"] == "next" and is_node(nx["receiver"]) and nx["receiver"]["k"] == "Path" \
                                and isinstance(env.get(nx["receiver"]["path"]), MutRef) and env[nx["receiver"]["path"]].a >= 1:
                            ref = env[nx["receiver"]["path"]]
                            # the element just yielded by a mutable iterator over `v`: a view of v[a - 1]
                            tgt = {"k": "MethodCall", "method": "unwrap", "args": [], "line": st.get("line", 0),
                                   "receiver": {"k": "MethodCall", "method": "get_mut", "line": st.get("line", 0), "receiver": {"k": "Path", "path": ref.name, "line": st.get("line", 0)},
                                                "args": [{"k": "Lit", "text": str(ref.a - 1), "int": ref.a - 1, "line": st.get("line", 0)}]}}
                            by_ref = True
                        if tgt is not None and by_ref and (tgt["k"] != "Path" or (is_node(init) and init["k"] == "Ref" and init.get("mut") and tgt["path"] != pp["name"])):
                            aliases[pp["name"]] = (tgt, v)
                        else:
                            aliases.pop(pp["name"], None)
                elif k == "ExprStmt":
                    v = self.ex(st["expr"], env)
                    last = UNIT if st.get("semi") else v
                    self._flush_aliases(aliases, env)
                elif k == "ItemMacro" and st.get("path") == "macro_rules" and st.get("rule_body") is not None:
                    env["macro!" + st["ident"]] = ("macro", st["rule_params"], st["rule_body"])
                    shadow.add("macro!" + st["ident"])
                    last = UNIT
                elif k in ("Const", "Static") and is_node(st.get("expr")) and st.get("name"):
                    env[st["name"]] = self.ex(st["expr"], env)
                    shadow.add(st["name"])
                    last = UNIT
                else:
                    last = UNIT
            return last
        finally:
            self._flush_aliases(aliases, env)
            # assignments / pushes to variables of the enclosing scope stay visible there
            _back(outer, env, shadow)

    def iff(self, n, env):
        c = n["cond"]
        if is_node(c) and c["k"] == "LetExpr":
            v = self.ex(c["expr"], env)
            b = self.pat(c["pat"], v, env)
            if b is not None:
                e2 = Scope(env)
                e2.update(b)
                try:
                    return self.ex(n["then"], e2)
                finally:
                    _back(env, e2, b)
                    self._after_arm(c["expr"], c["pat"], v, b, e2, env)
            return self.ex(n["else"], env) if n.get("else") else UNIT
        if self.truth(c, env):
            return self.ex(n["then"], env)
        return self.ex(n["else"], env) if n.get("else") else UNIT

    def _program_display(self, v):
        """the text of a user type's own `Display::fmt`, interpreted (e.g. Key prints its name)"""
        if PROGRAM is None:
            return v
        types = set(PROGRAM.variant_enum.get(v[1], ())) | ({v[1]} if v[1] in PROGRAM.structs else set())
        cands = [f for t in types for f in PROGRAM.by_qual.get((t, "fmt"), []) if "Display" in (f.impl_trait or "")]
        fn = PROGRAM._pick(cands, self._cur_file()) if cands else None
        if fn is None or self.depth > 12:
            return v
        sub = AEval(funcs=self.funcs, consts=self.consts, builtins=self.builtins)
        sub.path_builtins = dict(self.path_builtins)
        sub.depth = self.depth + 1

        def dfmt(a):
            x = a[0]
            if x[0] == "ctor":
                x = sub._program_display(x)
            sub.out.append(x)
            return C("Ok", UNIT)
        for k in ("Display::fmt", "fmt::Display::fmt", "std::fmt::Display::fmt", "core::fmt::Display::fmt"):
            sub.path_builtins.setdefault(k, dfmt)
        try:
            sub.call_fn_obj(fn, [v, A("formatter")])
            return ("str", dtable.render(sub.out))
        except Unknown:
            return v

    @staticmethod
    def _impl_fits(fn, r):
        """a method found by its bare name only applies when the receiver can be a value of the impl's type: an impl of a std
        trait (Clone, Display, PartialEq ..) for some local type is not the `clone` / `fmt` / `eq` of every other value"""
        tr = (getattr(fn, "impl_trait", None) or "").split("<")[0].split("::")[-1]
        if tr not in ("Clone", "Display", "Debug", "PartialEq", "Eq", "PartialOrd", "Ord", "Hash", "Default", "From", "Into", "Deref", "DerefMut", "Drop", "Iterator", "IntoIterator", "AsRef", "ToTokens", "FromStr", "TryFrom"):
            return True
        st = (getattr(fn, "impl_self", None) or "").split("<")[0].split("::")[-1].lstrip("&")
        if r[0] != "ctor":
            return False
        if r[1] == st:
            return True
        return PROGRAM is not None and st in PROGRAM.variant_enum.get(r[1], ())

    def _note_assigned(self, name):
        """`name = ..` / `*name = ..` in the function being evaluated: the enclosing match arms of this function (not of its callers)
        see that the variable was replaced"""
        for st_ in reversed(getattr(self, "_assigned_stack", [])):
            if st_ is None:
                break
            st_.add(name)

    def _cur_file(self):
        st = getattr(self, "_file_stack", None)
        return st[-1] if st else None

    def _call_program_fn(self, fn, args):
        """a function found through the program index (not named by the rule): same calling convention as call_fn"""
        if self.depth > MAX_DEPTH:
            raise Unknown("recursion too deep")
        if len(fn.node["sig"]["inputs"]) != len(args):
            raise Unknown("arity of " + fn.name)
        self.depth += 1
        saved = getattr(self, "last_env", None)
        try:
            v = self.call_fn_obj(fn, args)
            self._callee_env = (fn, self.last_env)
            return v
        finally:
            self.depth -= 1
            if saved is not None:
                self.last_env = saved

    def run_fn(self, fn, args):
        """evaluate astlib.Fn `fn` on argument values; returns the value (or 'UNKNOWN: why' string)"""
        try:
            return self.call_fn_obj(fn, args)
        except Unknown as u:
            return "UNKNOWN: %s" % u

    def call_fn_obj(self, fn, args):
        params = fn.node["sig"]["inputs"]
        env = {}
        for p, a in zip(params, args):
            b = self.pat(p["pat"], a, env)
            if b is None:
                raise Unknown("parameter pattern")
            env.update(b)
        if fn.impl_self:
            env["#Self"] = ("str", fn.impl_self.split("<")[0].split("::")[-1].lstrip("&"))
        self.last_env = env       # what the function did to its `&mut` parameters can be read here afterwards
        if not hasattr(self, "_mutparams_stack"):
            self._mutparams_stack = []
        for p_ in params:
            if is_node(p_.get("pat")) and p_["pat"].get("k") == "PIdent" and _param_kind(p_.get("ty")) is not None:
                env["#kind:" + p_["pat"]["name"]] = ("str", _param_kind(p_.get("ty")))
        self._mutparams_stack.append({p_["pat"]["name"] for p_ in params if is_node(p_.get("pat")) and p_["pat"].get("k") == "PIdent"
                                      and re.match(r"^&\s*(?:'\w+\s*)?mut\b", str(p_.get("ty", "")).strip())})
        if not hasattr(self, "_impl_stack"):
            self._impl_stack = []
        self._impl_stack.append((fn.impl_self or "").split("<")[0].split("::")[-1])
        if not hasattr(self, "_file_stack"):
            self._file_stack = []
        self._file_stack.append(fn.file)
        if not hasattr(self, "_assigned_stack"):
            self._assigned_stack = []
        self._assigned_stack.append(None)
        try:
            return self._coerce_ret(fn, self.ex(fn.body, env))
        except Ret as r:
            return r.value
        finally:
            self._impl_stack.pop()
            self._file_stack.pop()
            self._assigned_stack.pop()
            self._mutparams_stack.pop()


def _tok_iter(tokens):
    for t in tokens:
        yield t
        if t["t"] in ("group", "rep"):
            yield from _tok_iter(t["c"])


def file_macros(ast, file_suffix):
    """name -> (parameter names, body) of the one-rule macro_rules! defined at item level in a file"""
    out = {}
    for (path, mods, it) in ast.item_macros:
        if path.endswith(file_suffix) and it.get("path") == "macro_rules" and it.get("rule_body") is not None:
            out[it["ident"]] = (it["rule_params"], it["rule_body"])
    return out


def _bytes_slice(t, a, z):
    """&t[a..z] with byte offsets; panics (as Rust does) when an offset is not a character boundary / out of range"""
    b = t.encode()
    if z is None:
        z = len(b)
    if not (0 <= a <= z <= len(b)):
        raise Ret(C("!panic"))
    try:
        b[:a].decode()
        return b[a:z].decode()
    except UnicodeDecodeError:
        raise Ret(C("!panic"))


def _bfind(t, pat, start=0):
    """byte offset of the first occurrence of pat (a string, or a list of single characters) in t, or None"""
    best = None
    for p_ in (pat if isinstance(pat, list) else [pat]):
        i = t.find(p_, start)
        if i >= 0:
            bi = len(t[:i].encode())
            if best is None or bi < best:
                best = bi
    return best


def file_funcs(ast, file_suffix, impl_self=None):
    """name -> Fn for the non-test functions of a file (methods of impl_self first when names clash)"""
    out = {}
    for f in ast.fns:
        if f.file.endswith(file_suffix) and not f.is_test() and f.body is not None:
            if f.impl_self:
                out.setdefault("%s::%s" % (f.impl_self.split("<")[0].split("::")[-1], f.name), f)
            if f.name in out and not (impl_self and f.impl_self and impl_self in f.impl_self):
                continue
            out[f.name] = f
    return out


def fmt(v):
    if isinstance(v, str):
        return v
    if v[0] == "ctor":
        fs = fields_of(v)
        inner = ", ".join([fmt(a) for a in v[2]] + ["%s: %s" % (k, fmt(x)) for k, x in fs.items()])
        return v[1] + ("(" + inner + ")" if inner else "")
    if v[0] in ("int", "bool", "str", "tok", "atom"):
        return str(v[1])
    if v[0] == "char":
        return repr(chr(v[1]))
    if v[0] == "tuple":
        return "(" + ", ".join(fmt(a) for a in v[1]) + ")"
    if v[0] == "list":
        return "[" + ", ".join(fmt(a) for a in v[1]) + "]"
    return str(v[0])
