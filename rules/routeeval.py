"""C14.R4 / R5: abstract evaluation (rules/absint.py; nothing compiled or run) of the router glue around the path functions:

  R4  the three effects that keep URL and context locale together (update_path_effect, correct_locale_prefix_effect,
      check_history_change) and maybe_redirect, with the real get_new_path / get_locale_from_path under them, on a modelled
      location / navigate / context: after each of them the URL and the context denote the same locale and the URL is the
      rewrite of the one the user was on (the locale that was in the URL is the `old` locale of the rewrite);
  R5  the route families: match_nested reads a locale only from a whole first segment and tries the prefixed families before
      the unprefixed (default) one with the route's segments in that family's locale; generate_routes_for_each_locale records
      every locale's segments under its own locale; the thread-local route locale is reset afterwards.
The models: `use_location`, `use_navigate`, `request_animation_frame`, the context's locale cell, the StoredValue cells, the
thread-local CURRENT_ROUTE_LOCALE, leptos_router's StaticSegment::test and the inner route (a list of per-locale segment
tables). leptos' reactive scheduling and the browser history are not modelled (not applicable to static analysis)."""
import re
from rules import absint, c14
from rules.absint import AEval, A, B, C, CF, L, T, UNIT, Unknown

F = c14.F
S = lambda v: ("str", v)  # noqa: E731
DEFAULT = "en"


def _segs():
    tables = {l: L(*[L(*[c14._seg_value(x) for x in rt[l]]) for rt in c14.ROUTES]) for l in c14.LOCALES}
    return CF("RouteSegments", **{"0": L(*[T(S(l), tables[l]) for l in c14.LOCALES])})


class World:
    """the modelled environment of one evaluation"""

    def __init__(self, funcs, url, ctx, cells=None, ssr=True):
        self.funcs, self.url, self.ctx = funcs, url, ctx
        self.cells = dict(cells or {})
        self.log = []
        self.ssr = ssr

    def evaluator(self):
        w = self
        ev = AEval(inputs=[(r'^cfg!notfeature="ssr"$', B(not self.ssr)), (r'^cfg!feature="ssr"$', B(self.ssr))], funcs=self.funcs)

        def set_locale(rv, a):
            w.log.append(("set_locale", a[0][1]))
            w.ctx = a[0][1]
            return UNIT

        def get_value(rv, a):
            return w.cells[rv[1]]

        def set_value(rv, a):
            w.cells[rv[1]] = a[0]
            return UNIT

        def navigate(rv, a):
            w.log.append(("navigate", rv[1] if rv[0] == "str" else absint.fmt(rv), absint.fields_of(a[0]) if a and a[0][0] == "ctor" else {}))
            return UNIT
        ev.builtins.update({
            "with_untracked": lambda rv, a: ev.apply(a[0], [rv]), "with": lambda rv, a: ev.apply(a[0], [rv]),
            "lock": lambda rv, a: C("Ok", rv), "read": lambda rv, a: C("Ok", rv),
            "unwrap_or_default": lambda rv, a: rv[2][0] if rv[0] == "ctor" and rv[1] == "Some" else S(DEFAULT),
            "get_locale": lambda rv, a: S(w.ctx), "get_locale_untracked": lambda rv, a: S(w.ctx), "set_locale": set_locale,
            "get_value": get_value, "set_value": set_value, "navigate": navigate,
        })
        ev.path_builtins = {
            "L::default": lambda a: S(DEFAULT), "L::get_all": lambda a: L(*[S(x) for x in c14.LOCALES]),
            "use_location": lambda a: CF("Location", pathname=S(w.url), search=S(""), hash=S("")),
            "use_navigate": lambda a: ("builtin-fn", "navigate"),
            "request_animation_frame": lambda a: ev.apply(a[0], []),
        }
        return ev


def _url(locale, route, explicit=False):
    return c14._url([], locale, route, [], explicit_default=explicit)


def _locale_of(url):
    first = [x for x in url.split("/") if x][:1]
    return first[0] if first and first[0] in c14.LOCALES else None


def check_effects(ctx, r, rid="R4"):
    funcs = absint.file_funcs(ctx.ast, F, impl_self="PathBuilder")
    need = ("update_path_effect", "correct_locale_prefix_effect", "check_history_change", "maybe_redirect", "get_new_path", "get_locale_from_path")
    if any(n not in funcs for n in need):
        r.missing("routing::%s" % [n for n in need if n not in funcs])
        return False
    segs = _segs()
    about = c14.ROUTES[2]        # /about, /a-propos, /ueber
    n = 0
    bad = {}

    def navs(w):
        return [x for x in w.log if x[0] == "navigate"]

    # ---- update_path_effect: the context locale changed (or not) while the user is on a URL
    fn = funcs["update_path_effect"]
    for prev in [None] + c14.LOCALES:
        for new in c14.LOCALES:
            for url_loc in ([prev] if prev else c14.LOCALES) + ([new] if prev and new != prev else []):
                for hist in (None, "de"):
                    w = World(funcs, _url(url_loc, about), new, {"hist": C("Some", S(hist)) if hist else C("None")})
                    ev = w.evaluator()
                    clo = ev.run_fn(fn, [A("i18n"), S("/"), A("hist"), segs])
                    if isinstance(clo, str):
                        raise Unknown("update_path_effect: " + clo)
                    try:
                        got = ev.apply(clo, [C("Some", S(prev)) if prev else C("None")])
                    except Unknown as u:
                        raise Unknown("update_path_effect closure: %s" % u)
                    n += 1
                    case = "previous run saw %s, context now %s, URL %s, history change pending %s" % (prev, new, w.url, hist)
                    if hist:
                        # a history change set the locale: the URL is already the browser's; nothing to rewrite, the marker is consumed
                        if navs(w) or got != S(hist) or w.cells["hist"] != C("None"):
                            bad.setdefault("update_path_effect#history", "%s: navigates %s, returns %s, marker %s; expected no navigation, the history locale returned and the marker cleared" % (case, navs(w), absint.fmt(got), absint.fmt(w.cells["hist"])))
                        continue
                    if got != S(new):
                        bad.setdefault("update_path_effect#value", "%s: the effect remembers %s, expected the context's locale %s" % (case, absint.fmt(got), new))
                    want_nav = prev is not None and new != prev and (_locale_of(w.url) or DEFAULT) != new
                    if not want_nav:
                        if navs(w):
                            bad.setdefault("update_path_effect#spurious", "%s: navigates to %s although URL and context already agree (or this is the first run)" % (case, navs(w)[0][1]))
                        continue
                    want = _url(new, about)
                    if [x[1] for x in navs(w)] != [want]:
                        bad.setdefault("update_path_effect#rewrite", "%s: navigates to %s, expected %s (the URL rewritten from %s to %s)" % (case, [x[1] for x in navs(w)], want, prev, new))
    # ---- correct_locale_prefix_effect: the URL changed under the context (a plain <a>, a typed URL, a history change)
    fn = funcs["correct_locale_prefix_effect"]
    for url_loc, explicit in [(l, False) for l in c14.LOCALES] + [(DEFAULT, True)]:
        for cur in c14.LOCALES:
            for hist in (False, True):
                w = World(funcs, _url(url_loc, about, explicit), cur, {"history_changed": B(hist)})
                ev = w.evaluator()
                clo = ev.run_fn(fn, [A("i18n"), S("/"), segs, A("history_changed")])
                if isinstance(clo, str):
                    raise Unknown("correct_locale_prefix_effect: " + clo)
                try:
                    ev.apply(clo, [C("None")])
                except Unknown as u:
                    raise Unknown("correct_locale_prefix_effect closure: %s" % u)
                n += 1
                url_l = _locale_of(w.url)
                case = "URL %s, context %s, history change %s" % (w.url, cur, hist)
                if (url_l or DEFAULT) == cur:
                    if w.log:
                        bad.setdefault("correct_locale_prefix_effect#spurious", "%s: URL and context agree, yet the effect does %s" % (case, w.log))
                    continue
                # a locale written in the URL wins, unless the user came here through the history (then the context wins);
                # a URL without prefix keeps the context's locale and gets its prefix back
                win = cur if (hist or url_l is None) else url_l
                want = _url(win, about)
                if w.ctx != win or [x[1] for x in navs(w)] != [want] or (hist and w.cells["history_changed"] != B(False)):
                    bad.setdefault("correct_locale_prefix_effect#sync", "%s: context becomes %s, navigation %s, marker %s; expected locale %s and URL %s" % (case, w.ctx, [x[1] for x in navs(w)], absint.fmt(w.cells["history_changed"]), win, want))
                elif navs(w) and navs(w)[0][2].get("replace") != B(True):
                    bad.setdefault("correct_locale_prefix_effect#replace", "%s: the corrected URL is pushed instead of replacing the history entry" % case)
    # ---- check_history_change: back / forward - as *histories*, with the state it shares with update_path_effect (`sync`) and with
    # correct_locale_prefix_effect (`history_changed`): after the event the context shows the URL's locale and nothing navigates; the locale
    # change it may have caused is not echoed back into the URL; and the user's next, genuine, switch does rewrite the URL - also when the
    # event did not change the locale (Back / Forward inside one locale's pages)
    fn = funcs["check_history_change"]
    upe = funcs["update_path_effect"]
    for url_loc in c14.LOCALES:
        for cur in c14.LOCALES:
            w = World(funcs, _url(url_loc, about), cur, {"sync": C("None"), "history_changed": B(False)})
            ev = w.evaluator()
            clo = ev.run_fn(fn, [A("i18n"), S("/"), A("sync"), A("history_changed")])
            eff = ev.run_fn(upe, [A("i18n"), S("/"), A("sync"), segs])
            if isinstance(clo, str) or isinstance(eff, str):
                raise Unknown("check_history_change / update_path_effect: %s" % (clo if isinstance(clo, str) else eff))
            try:
                ev.apply(clo, [A("popstate")])
            except Unknown as u:
                raise Unknown("check_history_change closure: %s" % u)
            n += 1
            case = "back / forward to %s with context %s" % (w.url, cur)
            if w.ctx != url_loc or navs(w):
                bad.setdefault("check_history_change", "%s: context becomes %s, navigation %s; expected the URL's locale %s in the context, no navigation" % (case, w.ctx, navs(w), url_loc))
                continue
            remembered = cur
            try:
                if url_loc != cur:
                    # the effect runs because the locale changed: it must take it for what it is, the echo of the history change
                    got = ev.apply(eff, [C("Some", S(cur))])
                    if navs(w):
                        bad.setdefault("check_history_change#echo", "%s: the locale change made by the history event is written back into the URL (%s)" % (case, navs(w)[0][1]))
                        continue
                    remembered = got[1] if got[0] == "str" else url_loc
                # the user now picks another locale
                other = [l_ for l_ in c14.LOCALES if l_ != w.ctx][0]
                w.ctx = other
                ev.apply(eff, [C("Some", S(remembered))])
            except Unknown as u:
                raise Unknown("update_path_effect after a history event: %s" % u)
            n += 1
            if [x[1] for x in navs(w)] != [_url(other, about)]:
                bad.setdefault("check_history_change#next-switch", "%s, then the user switches to %s: navigation %s, expected the URL rewritten to %s - a marker left armed by the history event makes the "
                               "genuine switch look like its echo" % (case, other, [x[1] for x in navs(w)], _url(other, about)))
    # ---- maybe_redirect: server side, a URL without prefix while the resolved locale is not the default
    fn = funcs["maybe_redirect"]
    for loc in c14.LOCALES:
        for ssr in (True, False):
            w = World(funcs, _url(DEFAULT, about), loc, ssr=ssr)
            ev = w.evaluator()
            got = ev.run_fn(fn, [S(loc), S("/"), segs])
            if isinstance(got, str):
                raise Unknown("maybe_redirect: " + got)
            n += 1
            want = C("Some", S(_url(loc, about))) if (ssr and loc != DEFAULT) else C("None")
            if got != want:
                bad.setdefault("maybe_redirect", "resolved locale %s on the unprefixed URL %s (ssr %s): %s, expected %s" % (loc, w.url, ssr, absint.fmt(got), absint.fmt(want)))
    for k, msg in sorted(bad.items()):
        r.viol("%s:%s" % (rid, k), msg, file=F, line=funcs[k.split("#")[0]].line if k.split("#")[0] in funcs else None)
    if not bad:
        r.inst("update_path_effect / correct_locale_prefix_effect / check_history_change / maybe_redirect",
               "%d situations (previous / context / URL locale x pending history change): afterwards URL and context denote the same locale, the URL is the rewrite of the one the user was on with the URL's locale as the old one, "
               "an explicit prefix wins over the context except after a history change, no navigation when they already agree" % n)
    return True


def check_families(ctx, r, rid="R5"):
    ast = ctx.ast
    fams = [f for f in ast.fns if f.file.endswith(F) and f.name == "generate_routes_for_each_locale"]
    mn = [f for f in ast.fns if f.file.endswith(F) and f.name == "match_nested" and "I18nNestedRoute" in (f.impl_self or "")]
    helpers = absint.file_funcs(ast, F)
    if not fams or not mn or any(h not in helpers for h in ("set_current_route_locale", "reset_current_route_locale", "get_current_route_locale")):
        r.missing("routing::generate_routes_for_each_locale / match_nested / *_current_route_locale")
        return False
    about = c14.ROUTES[2]
    state = {"cur": C("None")}

    def mk():
        ev = AEval(funcs={k: helpers[k] for k in ("set_current_route_locale", "reset_current_route_locale", "get_current_route_locale")})

        def with_cell(rv, a, write):
            f = a[0]
            if f[0] != "closure" or len(f[1]["inputs"]) != 1:
                raise Unknown("thread-local access without a one-parameter closure")
            e2 = dict(f[2])
            b = ev.pat(f[1]["inputs"][0], state["cur"], e2)
            if b is None:
                raise Unknown("thread-local closure parameter")
            e2.update(b)
            name = next(iter(b))
            try:
                out = ev.ex(f[1]["body"], e2)
            except absint.Ret as rt:
                out = rt.value
            if write:
                state["cur"] = e2[name]
            return out
        ev.builtins.update({"with_borrow_mut": lambda rv, a: with_cell(rv, a, True), "with_borrow": lambda rv, a: with_cell(rv, a, False),
                            "as_str": lambda rv, a: rv, "unwrap_or_default": lambda rv, a: rv[2][0] if rv[0] == "ctor" and rv[1] == "Some" else S(DEFAULT)})
        ev.path_builtins = {"L::get_all": lambda a: L(*[S(x) for x in c14.LOCALES]), "L::default": lambda a: S(DEFAULT),
                            "L::from_str": lambda a: C("Ok", a[0]) if a[0][0] == "str" and a[0][1] in c14.LOCALES else C("Err", UNIT)}
        return ev

    def current():
        c = state["cur"]
        return c[2][0][1] if c[0] == "ctor" and c[1] == "Some" else DEFAULT
    bad = {}
    n = 0
    # ---- the per-locale segment tables
    ev = mk()

    def gen_routes(a):
        return L(CF("GeneratedRouteData", segments=L(*[c14._seg_value(x) for x in about[current()]])))
    ev.path_builtins["MatchNestedRoutes::generate_routes"] = gen_routes
    this = CF("I18nNestedRoute", route=A("inner-route"), base_path=S("/"), segments=A("segments"))
    state["cur"] = C("None")
    got = ev.run_fn(fams[0], [this])
    if isinstance(got, str):
        raise Unknown("generate_routes_for_each_locale: " + got)
    n += 1
    want = {l: L(L(*[c14._seg_value(x) for x in about[l]])) for l in c14.LOCALES}
    have = {x[1][0][1]: x[1][1] for x in got[1]} if got[0] == "list" else None
    if have != want:
        bad["generate_routes_for_each_locale"] = "the segment table is %s; expected every locale mapped to the route's segments in that locale" % absint.fmt(got)[:300]
    elif state["cur"] != C("None"):
        bad["generate_routes_for_each_locale#reset"] = "the route locale is left at %s afterwards: routes matched or generated later would use it" % absint.fmt(state["cur"])
    # a locale that uses the default locale's words, and an application without localized segments: every locale still gets
    # its table (a switch between two non-default locales rewrites through both tables)
    for label, table in (("one locale shares the default's words", {"en": ["", "about"], "fr": ["", "a-propos"], "de": ["", "about"]}),
                         ("no localized segment", {"en": ["", "docs", ":id"], "fr": ["", "docs", ":id"], "de": ["", "docs", ":id"]})):
        ev = mk()
        ev.path_builtins["MatchNestedRoutes::generate_routes"] = lambda a, table=table: L(CF("GeneratedRouteData", segments=L(*[c14._seg_value(x) for x in table[current()]])))
        state["cur"] = C("None")
        got = ev.run_fn(fams[0], [this])
        if isinstance(got, str):
            raise Unknown("generate_routes_for_each_locale: " + got)
        n += 1
        want = {l: L(L(*[c14._seg_value(x) for x in table[l]])) for l in c14.LOCALES}
        have = {x[1][0][1]: x[1][1] for x in got[1]} if got[0] == "list" else None
        if have != want:
            bad.setdefault("generate_routes_for_each_locale", "%s: the segment table holds %s; expected one entry per locale (%s) - without its table a locale's URLs are not rewritten when switching between two non-default locales"
                           % (label, sorted(have) if have is not None else absint.fmt(got)[:200], ", ".join(c14.LOCALES)))
    # ---- match_nested
    def static_test(rv, a):
        # leptos_router 0.7.8, `impl PossibleRouteMatch for StaticSegment<T>` - transcribed, quirks included: it compares the text of
        # the segment with the beginning of the path and stops where the segment's text ends, *not* at the end of the path segment
        # (`StaticSegment("en").test("/entries")` is a match of `/en` that leaves `tries`)
        seg = rv[2][0][1]
        path = a[0][1]
        matched_len = 0
        test = list(path)
        this = list(seg)
        ti = si = 0
        has_matched = seg in ("", "/")
        if test[:1] == ["/"]:
            ti = 1
            if seg != "":
                matched_len += 1
            if seg.startswith("/") or seg == "":
                si += 1
        while ti < len(test):
            ch = test[ti]
            ti += 1
            n_ = this[si] if si < len(this) else None
            si += 1
            if ch == "/" or n_ is None:
                break
            elif ch == n_:
                has_matched = True
                matched_len += len(ch.encode("utf-8"))
            else:
                return C("None")
        if si < len(this):
            return C("None")
        pb = path.encode("utf-8")
        if not has_matched:
            return C("None")
        return C("Some", CF("PartialPathMatch", remaining=S(pb[matched_len:].decode("utf-8")), matched=S(pb[:matched_len].decode("utf-8"))))

    inner_route = {"t": about}

    def inner_match(a):
        path = a[1][1]
        tab_ = inner_route["t"][current()]
        p = [x for x in path.split("/") if x]
        for segs_ in (tab_ if tab_ and isinstance(tab_[0], list) else [tab_]):
            segs_ = [x for x in segs_ if x]
            if len(p) == len(segs_) and all(sg.startswith(":") or sg == x for sg, x in zip(segs_, p)):
                return T(C("Some", T(A("route-id"), A("inner-match:" + current()))), S(""))
        return T(C("None"), S(path))
    # a route that starts with a parameter: `/fr/a-propos` passes the `fr` prefix test, fails inside the fr family (one segment short) and
    # must then be tried against the unprefixed family with the *default* locale's words (where `a-propos` is not `about`)
    section = {"en": ["", ":section", "about"], "fr": ["", ":section", "a-propos"], "de": ["", ":section", "ueber"]}
    cases = [(about, u, w) for u, w in [("/fr/a-propos", "fr"), ("/de/ueber", "de"), ("/about", None), ("/en/about", "en"), ("/fr/about", False), ("/a-propos", False), ("/french/a-propos", False), ("/frites", False), ("/de/a-propos", False),
                                         ("/FR/a-propos", False), ("/Fr/a-propos", False), ("/EN/about", False),
                                         # what a parent route that matched part of a segment hands down (`/appfr/a-propos` under the parent `app`): no leading `/`
                                         ("fr/a-propos", False), ("de/ueber", False)]]
    cases += [(section, u, w) for u, w in [("/fr/x/a-propos", "fr"), ("/x/about", None), ("/en/x/about", "en"), ("/fr/a-propos", False), ("/de/ueber", False), ("/x/a-propos", False), ("/fr/about", None), ("/de/x/a-propos", False)]]
    # two ordinary routes, one of which is a locale name followed by the other: `/entries` = `en` + `tries`, `/defr` ..; the first segment of
    # `/entries` is not a locale name, so it belongs to the unprefixed family (and `/frtries` to none)
    words = {l_: [["", "tries"], ["", "entries"], ["", "x", "tries"]] for l_ in c14.LOCALES}
    cases += [(words, u, w) for u, w in [("/entries", None), ("/tries", None), ("/en/tries", "en"), ("/en/entries", "en"), ("/fr/tries", "fr"), ("/frtries", False), ("/detries", False), ("/enx/tries", False), ("/x/tries", None)]]
    for table_, url, want_loc in cases:
        inner_route["t"] = table_
        ev = mk()
        ev.builtins.update({"test": static_test, "remaining": lambda rv, a: absint.fields_of(rv)["remaining"], "matched": lambda rv, a: absint.fields_of(rv)["matched"]})
        ev.path_builtins["MatchNestedRoutes::match_nested"] = inner_match
        state["cur"] = C("None")
        got = ev.run_fn(mn[0], [this, S(url)])
        if isinstance(got, str):
            raise Unknown("match_nested on %s: %s" % (url, got))
        n += 1
        m = got[1][0] if got[0] == "tuple" else None
        if want_loc is False:
            if m != C("None") or got[1][1] != S(url):
                bad.setdefault("match_nested#no-match", "`%s` is served by no route family (the segment after a locale prefix must be that locale's), yet match_nested returns %s" % (url, absint.fmt(got)[:200]))
        else:
            ok = m is not None and m[0] == "ctor" and m[1] == "Some"
            rm = absint.fields_of(m[2][0][1][1]) if ok else {}
            if not ok or rm.get("locale") != (C("Some", S(want_loc)) if want_loc else C("None")) or rm.get("inner_match") != A("inner-match:" + (want_loc or DEFAULT)):
                bad.setdefault("match_nested#family", "`%s` must be served by the %s family with the route's segments in that locale; match_nested returns %s" % (url, want_loc or "unprefixed (default)", absint.fmt(got)[:300]))
        if state["cur"] != C("None"):
            bad.setdefault("match_nested#reset", "after matching `%s` the route locale is left at %s" % (url, absint.fmt(state["cur"])))
    # ---- every locale gets its family: the walks over `L::get_all()` in the three functions are complete and forward (no
    # filtering / skipping / reordering adaptor between the list and the per-locale work), and generate_routes adds the
    # unprefixed default family after them
    from astlib import find_all, method_chain, show
    SKIPPING = {"filter", "filter_map", "skip", "take", "step_by", "skip_while", "take_while", "rev", "nth", "last", "find", "position", "peekable_skip", "dedup", "chunks"}
    gens = [f for f in ast.fns if f.file.endswith(F) and f.name == "generate_routes" and "I18nNestedRoute" in (f.impl_self or "") and f.body is not None]
    for f in gens + fams:
        walks = []
        for mc in find_all(f.body, "MethodCall"):
            base, ch = method_chain(mc)
            if absint._flatp(show(base)).replace(" ", "") in ("L::get_all", "L::get_all()") or show(base).replace(" ", "").startswith("L::get_all"):
                walks.append([m for m, _a, _n in ch])
        loops = [fl for fl in find_all(f.body, "ForLoop") if show(fl["iter"]).replace(" ", "").startswith("L::get_all")]
        longest = max(walks, key=len) if walks else None
        if longest is None and not loops:
            bad.setdefault("%s#all-locales" % f.name, "no walk over `L::get_all()` was found in %s" % f.name)
        elif longest is not None and set(longest) & SKIPPING:
            bad.setdefault("%s#all-locales" % f.name, "%s walks the locales as `L::get_all().%s`: `%s` leaves some locales (e.g. the default one, whose prefixed family `/%s/..` is then missing) without routes"
                           % (f.name, ".".join(longest), sorted(set(longest) & SKIPPING)[0], DEFAULT))
        else:
            n += 1
    if gens:
        pass
    else:
        bad.setdefault("generate_routes#missing", "I18nNestedRoute::generate_routes was not found")
    # ---- the route locale is thread-local state and the families are produced by *lazy* iterators: the inner routes must be asked
    # (`MatchNestedRoutes::match_nested / generate_routes(&self.route)`) in the same unit of execution that set the locale for them -
    # the same function / closure body after the `set_current_route_locale` call, or a closure nested in that closure.  A set call in
    # the function body with the inner call inside a closure handed to a lazy iterator constructor (`once_with`, `map`, `flat_map` ..)
    # runs the closure later, under whatever locale was set last.
    try:
        prog = ctx.mir("main")
    except Exception:  # noqa: BLE001
        prog = None
    if prog is not None:
        from mirlib import callee_name as _cn, op_place as _op
        LAZY = re.compile(r"iter::(sources::)?(once_with|from_fn|repeat_with|successors)(::\w+)?$|Iterator::(map|flat_map|filter_map|filter|inspect|scan|take_while|map_while|skip_while|flat_map)$|::then$|LazyCell|Lazy::new")
        roots = [n_ for n_ in prog.bodies if re.search(r"I18nNestedRoute<.*>::(match_nested|generate_routes)$|I18nNestedRoute::<.*>::generate_routes_for_each_locale$", n_)]
        # private helpers of the routing module that these functions call count as functions of their own (a family moved into a helper)
        grew_ = True
        while grew_:
            grew_ = False
            for root in list(roots):
                for bb_ in prog.family(prog.bodies[root]):
                    for _i0, t0_ in bb_.calls():
                        cn0 = _cn(t0_) or ""
                        hb0 = prog.bodies.get(cn0)
                        if hb0 is not None and "leptos_i18n_router::routing::" in cn0 and "::{closure#" not in cn0 and cn0 not in roots and not hb0.is_pub \
                                and not re.search(r"(set|reset)_current_route_locale$", cn0):
                            roots.append(cn0)
                            grew_ = True
        units = 0
        for root in roots:
            fam_ = {b_.name: b_ for b_ in prog.family(prog.bodies[root])}
            for bn, bb in sorted(fam_.items()):
                inner = [i_ for i_, t_ in bb.calls() if re.search(r"MatchNestedRoutes>?::(match_nested|generate_routes)$", _cn(t_) or "")]
                if not inner:
                    continue
                units += 1
                # walk out through the enclosing closures
                cur, okk, why_ = bn, False, None
                while True:
                    cb = fam_.get(cur)
                    sets = [i_ for i_, t_ in cb.calls() if re.search(r"routing::set_current_route_locale$", _cn(t_) or "")] if cb is not None else []
                    if sets and (cur != bn or all(any(cb.dominates(s_, i_) for s_ in sets) for i_ in inner)):
                        if cur == bn or cur != root:
                            okk = True
                            break
                        # the set call is in the function body, the inner call in a closure: fine when the closure runs at once, not
                        # when it is handed to a lazy iterator constructor
                        top = bn
                        while top.rsplit("::{closure#", 1)[0] != root:
                            top = top.rsplit("::{closure#", 1)[0]
                        lazy_ = None
                        rb = fam_[root]
                        for _i, _j, st_ in rb.assigns():
                            if st_["rv"]["k"] == "Aggregate" and st_["rv"].get("agg") == "Closure" and st_["rv"].get("def") == top:
                                cl_locals = {st_["place"]["l"]}
                                grew = True
                                while grew:          # moves, also through the `Cast Subtype` rustc inserts for closures
                                    grew = False
                                    for _i2, _j2, s2_ in rb.assigns():
                                        if s2_["rv"]["k"] in ("Use", "Cast") and not s2_["place"]["p"] and s2_["place"]["l"] not in cl_locals and s2_["rv"].get("ops"):
                                            p2_ = _op(s2_["rv"]["ops"][0])
                                            if p2_ and not p2_["p"] and p2_["l"] in cl_locals:
                                                cl_locals.add(s2_["place"]["l"])
                                                grew = True
                                for ci_, ct_ in rb.calls():
                                    if any((_op(a_) or {}).get("l") in cl_locals for a_ in ct_["args"]) and LAZY.search(_cn(ct_) or ""):
                                        lazy_ = _cn(ct_)
                        if lazy_ is None:
                            okk = True
                        else:
                            why_ = "the locale is set in the function body, but the inner routes are asked inside a closure handed to `%s`, which runs it later" % lazy_.split("::")[-1]
                        break
                    if "::{closure#" not in cur or cur == root:
                        break
                    cur = cur.rsplit("::{closure#", 1)[0]
                if not okk:
                    fn_ = root.split("::")[-1]
                    bad.setdefault("%s#locale-set-in-the-same-unit" % fn_, "%s: %s" % (fn_, why_ or "the inner routes are asked (`%s`) without the route locale having been set in the same closure / function body before" % bn.split("::", 3)[-1][-60:]))
        if units < 1:
            bad.setdefault("families#units", "no place where the inner routes are asked was found in match_nested / generate_routes / generate_routes_for_each_locale (nor in the private helpers they call)")
        else:
            n += units
        # generate_routes also produces the family without prefix, under the *default* locale: somewhere in it (or in a helper it hands the
        # locale to) the route locale is set from `L::default()`
        from mirlib import backward_slice as _bs
        gr = [n_ for n_ in prog.bodies if re.search(r"I18nNestedRoute<.*>::generate_routes$", n_)]
        has_default = False
        for g_ in gr:
            for bb_ in prog.family(prog.bodies[g_]):
                for _i1, t1_ in bb_.calls():
                    cn1 = _cn(t1_) or ""
                    if re.search(r"routing::set_current_route_locale$", cn1) or (cn1 in roots and cn1 not in gr):
                        for a_ in t1_["args"]:
                            pl_ = _op(a_)
                            if pl_ is None:
                                continue
                            _ls, defs_ = _bs(bb_, pl_["l"])
                            if any(j_ == "term" and re.search(r"Default::default$|Locale::default$", _cn(d_) or "") for (_bi, j_, d_) in defs_):
                                has_default = True
        if gr and not has_default:
            bad.setdefault("generate_routes#unprefixed", "generate_routes never sets the route locale from `L::default()`: the family without prefix is not generated under the default locale")
    for k, msg in sorted(bad.items()):
        r.viol("%s:%s" % (rid, k), msg, file=F, line=(mn[0].line if k.startswith("match_nested") else fams[0].line))
    if not bad:
        r.inst("match_nested / generate_routes_for_each_locale", "%d cases: a locale is read from a whole first segment only, prefixed families are tried with their own locale's segments before the unprefixed default family, "
               "every locale's segment table is recorded under its own locale, the thread-local route locale is reset afterwards" % n)
    return True
