"""C19 Configuration is validated and normalised as documented."""
import re

from report import Rule
from mirlib import callee_name, op_const, op_place
import mustlib as M
import panics
from astlib import find_all, show, callee_path, find_first

EXPLANATION = (
    "Primary clause (R0): ConfigFile::new, the serde visitor and the file probing are interpreted abstractly (rules/absint.py; nothing compiled or run; toml and the file system are modelled) over small configurations and layouts and compared with the statement. The structural clauses R1 / R2 are used only when the code leaves the interpreter's fragment. Static structural analysis (MIR dominance/must-pass-through + syntax facts), nothing executed. Decided clauses: "
    "(R1) in ConfigFile::new every path to Ok(cfg) passes the default-first step (swap(0, position) or push + swap(0, len) "
    "on cfg.locales) and both duplicate checks, whose Some-branches build DuplicateLocalesInConfig / "
    "DuplicateNamespacesInConfig and cannot reach Ok; in CfgFileVisitor::visit_map Ok(ConfigFile) is dominated by the "
    "presence tests of `default` and `locales` (missing_field on the None side), by the loop over `inherits` whose every "
    "iteration tests both ends with locales.contains (error on the false side), and by extensions.contains_key(&default) "
    "(error on the true side); unknown fields are skipped, the field-name table is the documented one. (R2) the shared "
    "PathBuf is pushed/popped in balance on every non-error path of the per-locale loops, the path components are "
    "<locales-dir>/<locale>[/<namespace>] and find_file tries exactly the extensions of the enabled format. "
    "(D) every configuration error variant still has a construction site. NOT decided: which concrete files are opened "
    "for a concrete layout, TOML parsing itself."
)
ASSUMPTIONS = [
    "toml::de::from_str and serde drive the visitor as documented (visit_map, next_key, next_value)",
    "the per-format extension table is the documented one (json; yaml/yml; json5)",
]

CFG = "leptos_i18n_parser/src/parse_locales/cfg_file.rs"
LOC = "leptos_i18n_parser/src/parse_locales/locale.rs"


def r1_new(ctx, prog, r):
    b = prog.body("cfg_file::ConfigFile::new")
    if b is None:
        return r.missing("ConfigFile::new")
    oks = M.ok_return_blocks(b)
    if len(oks) != 1:
        return r.viol("R1:ConfigFile::new#ok", "expected one Ok(cfg) return, found %d" % len(oks), file=b.file)
    ok = oks[0]
    # default-first step
    swaps = M.call_blocks(b, r"core::slice::<impl \[T\]>::swap$")
    good_swaps = []
    for sb in swaps:
        t = b.blocks[sb]["term"]
        c = op_const(t["args"][1])
        recv = op_place(t["args"][0])
        first_is_zero = bool(c and c.get("int") == "0")
        on_locales = recv is not None and M.derives_from_field(b, prog, recv["l"], "cfg_file::ConfigFile", "locales")
        if first_is_zero and on_locales:
            good_swaps.append(sb)
    inserts = []
    for ib in M.call_blocks(b, r"std::vec::Vec::<T, A>::insert$"):
        t = b.blocks[ib]["term"]
        c = op_const(t["args"][1])
        recv = op_place(t["args"][0])
        if c and c.get("int") == "0" and recv is not None and M.derives_from_field(b, prog, recv["l"], "cfg_file::ConfigFile", "locales"):
            inserts.append(ib)
    r.inst("ConfigFile::new#swap", "%d swap(0, _) / %d insert(0, _) on cfg.locales" % (len(good_swaps), len(inserts)))
    # the duplicate check must see every locale that was written in the file: nothing may be removed before it
    dupchk = M.call_blocks(b, r"cfg_file::ConfigFile::contain_duplicates$")
    removers = M.call_blocks(b, r"std::vec::Vec::<T, A>::(retain|retain_mut|dedup|dedup_by|dedup_by_key|remove|swap_remove|truncate|drain|clear|pop|split_off|extract_if)$")
    for rb in removers:
        recv = op_place(b.blocks[rb]["term"]["args"][0])
        if recv is not None and M.derives_from_field(b, prog, recv["l"], "cfg_file::ConfigFile", "locales") and b.paths_avoiding(rb, dupchk, []):
            r.viol("R1:ConfigFile::new#removes-before-dup-check", "`%s` drops declared locales before the duplicate check runs: a locale listed twice is no longer reported" % (callee_name(b.blocks[rb]["term"]) or "").split("::")[-1], file=b.file, line=b.blocks[rb]["term"]["line"])
    if not removers:
        r.inst("ConfigFile::new#no-removal", "no element-removing call on cfg.locales before contain_duplicates")
    good_swaps_only = list(good_swaps)
    good_swaps = good_swaps + inserts
    if not good_swaps or not M.must_pass(b, good_swaps, [ok]):
        r.viol("R1:ConfigFile::new#default-first", "a path reaches Ok(cfg) without `cfg.locales.swap(0, ..)` / `insert(0, ..)`: the default locale is not moved to the front", file=b.file, line=b.line)
    # each swap: index is the position() result, or follows a push of cfg.default
    pos = M.call_blocks(b, r"Iterator>::position$|Iterator::position$")
    pushes = M.call_blocks(b, r"std::vec::Vec::<T, A>::push$")
    for sb in good_swaps_only:
        dom_pos = any(b.dominates(p, sb) for p in pos)
        dom_push = any(b.dominates(p, sb) for p in pushes)
        some_side = False
        for p in pos:
            for (swb, sw, place) in M.discr_switches(b, lambda pl: pl["l"] == b.blocks[p]["term"]["dest"]["l"]):
                some = [t for v, t in sw["targets"] if v == "1"]
                if some and b.dominates(some[0], sb):
                    some_side = True
        if some_side:
            r.inst("ConfigFile::new#swap@position", "swap(0, i) on the Some(i) side of position(|l| l == default)")
        elif dom_push and dom_pos:
            r.inst("ConfigFile::new#swap@push", "push(default) then swap(0, len) on the None side")
        else:
            r.viol("R1:ConfigFile::new#swap-index", "swap(0, _) is neither on the Some side of position() nor preceded by push(default)", file=b.file, line=b.blocks[sb]["term"]["line"])
    # duplicate checks
    direct = M.call_blocks(b, r"cfg_file::ConfigFile::contain_duplicates$")
    indirect = [i for i, t in b.calls() if any((op_const(a) or {}).get("fn", "").endswith("ConfigFile::contain_duplicates") for a in t["args"])]
    r.inst("ConfigFile::new#contain_duplicates", "direct call blocks %s, passed as fn item in blocks %s" % (direct, indirect))
    for what, blocks, variant in (("locales", direct, "DuplicateLocalesInConfig"), ("namespaces", indirect, "DuplicateNamespacesInConfig")):
        if not blocks or not M.must_pass(b, blocks, [ok]):
            r.viol("R1:ConfigFile::new#dup-" + what, "a path reaches Ok(cfg) without the duplicate check on %s" % what, file=b.file, line=b.line)
            continue
        errs = M.agg_blocks(b, "error::Error", variant)
        if not errs:
            r.viol("R1:ConfigFile::new#" + variant, "Error::%s is no longer constructed in ConfigFile::new" % variant, file=b.file, line=b.line)
            continue
        for e in errs:
            if b.paths_avoiding(e, [ok], []):
                r.viol("R1:ConfigFile::new#%s-falls-through" % variant, "the %s branch can still reach Ok(cfg)" % variant, file=b.file)
            if not any(b.dominates(c, e) for c in blocks):
                r.viol("R1:ConfigFile::new#%s-unguarded" % variant, "Error::%s is not control dependent on the duplicate check" % variant, file=b.file)
        # the check on locales must see the list after the default was inserted
        if what == "locales" and good_swaps and not all(any(b.dominates(s, c) for s in good_swaps) or M.must_pass(b, good_swaps, [c]) for c in blocks):
            r.viol("R1:ConfigFile::new#dup-before-default", "duplicate check on locales runs before the default locale is inserted", file=b.file)
        r.inst("ConfigFile::new#" + variant, "constructed in blocks %s, guarded by the check, cannot reach Ok" % errs)


def r1_visit_map(ctx, prog, r):
    b = prog.body("<leptos_i18n_parser::parse_locales::cfg_file::CfgFileVisitor as serde::de::Visitor<'de>>::visit_map")
    if b is None:
        return r.missing("CfgFileVisitor::visit_map")
    oks = M.ok_return_blocks(b)
    if len(oks) != 1:
        return r.viol("R1:visit_map#ok", "expected one Ok(ConfigFile{..}) return, found %d" % len(oks), file=b.file)
    ok = oks[0]
    # required fields
    for fld in ("default", "locales"):
        mf = M.call_blocks(b, r"serde::de::Error::missing_field$", lambda t, fld=fld: panics.const_str_arg(b, t, 0) == fld)
        sws = [(i, sw) for (i, sw, pl) in M.discr_switches(b, lambda pl, fld=fld: b.local_name(pl["l"]) == fld and b.local_ty(pl["l"]).startswith("std::option::Option"))]
        if not mf:
            r.viol("R1:visit_map#missing_field-" + fld, "missing_field(\"%s\") is no longer produced" % fld, file=b.file, line=b.line)
            continue
        good = False
        for (i, sw) in sws:
            none_side = sw["otherwise"]
            some = [t for v, t in sw["targets"] if v == "1"]
            if b.dominates(i, ok) and any(M.exclusive_reach(b, none_side, m, some[0] if some else -1) for m in mf) and not b.paths_avoiding(mf[0], [ok], []):
                good = True
        if good:
            r.inst("visit_map#required-" + fld, "Ok is dominated by the Some/None test of `%s`; None side returns missing_field(\"%s\")" % (fld, fld))
        else:
            r.viol("R1:visit_map#required-" + fld, "Ok(ConfigFile) is not dominated by a presence test of `%s` whose None side reports missing_field" % fld, file=b.file, line=b.line)
    # inherits loop
    nexts = M.call_blocks(b, r"btree_map::Iter<.*> as std::iter::Iterator>::next$")
    contains = M.call_blocks(b, r"core::slice::<impl \[T\]>::contains$")
    r.inst("visit_map#inherits-loop", "iterator next blocks %s, contains blocks %s" % (nexts, contains))
    if len(nexts) != 1 or not b.dominates(nexts[0], ok):
        r.viol("R1:visit_map#inherits-loop", "Ok(ConfigFile) is not dominated by the loop over `inherits`", file=b.file, line=b.line)
    else:
        lp = M.loop_of(b, nexts[0])
        if lp is None:
            r.viol("R1:visit_map#inherits-loop", "the iteration over `inherits` is not a loop", file=b.file)
        else:
            hdr, nodes = lp
            inloop = [c for c in contains if c in nodes]
            vars_checked = set()
            for c in inloop:
                t = b.blocks[c]["term"]
                # which loop variable is tested: the second argument derives from k or v
                arg = op_place(t["args"][1])
                name = None
                seen, found = set(), []
                from mirlib import backward_slice
                ls, _ = backward_slice(b, arg["l"]) if arg else (set(), [])
                for l in ls:
                    if b.local_name(l) in ("k", "v"):
                        name = b.local_name(l)
                recv = op_place(t["args"][0])
                rs, _ = backward_slice(b, recv["l"]) if recv else (set(), [])
                on_locales = any(b.local_name(l) == "locales" for l in rs)
                rsw = M.result_switch(b, c)
                if rsw is None:
                    r.viol("R1:visit_map#contains-unused", "result of locales.contains(..) is not branched on", file=b.file, line=t["line"])
                    continue
                swb, t_true, t_false = rsw
                errs = [e for e in M.call_blocks(b, r"serde::de::Error::custom$") if e in nodes or b.dominates(swb, e)]
                # the error is reached from the `not contained` side (possibly after a further test such as `k != default`),
                # and not from the `contained` side before the next membership test / the next iteration
                others = [c2 for c2 in inloop if c2 != c]
                err_on_false = any(M.straight_reach(b, t_false, e) for e in errs) or bool(b.paths_avoiding(t_false, errs, [hdr, t_true] + others))
                err_on_true = any(M.straight_reach(b, t_true, e) for e in errs) or bool(b.paths_avoiding(t_true, errs, [hdr, t_false] + others))
                if on_locales and name and err_on_false and not err_on_true:
                    vars_checked.add(name)
                    r.inst("visit_map#inherits-%s" % name, "`!locales.contains(%s)` -> custom error; membership tested for the %s of every inherits entry" % (name, "key" if name == "k" else "value"))
                else:
                    r.viol("R1:visit_map#contains-%s" % (name or "?"), "membership test of inherits entry is malformed (on locales=%s, var=%s, error on false side=%s, on true side=%s)" % (on_locales, name, err_on_false, err_on_true), file=b.file, line=t["line"])
            for v in ("k", "v"):
                if v not in vars_checked:
                    r.viol("R1:visit_map#inherits-unchecked-" + v, "the %s of an `inherits` entry is not checked against the locale list" % ("key" if v == "k" else "value"), file=b.file, line=b.line)
            # every iteration passes both tests
            srcs = [s for (s, h) in b.back_edges() if h == hdr or s in nodes]
            somes = []
            for (i, sw, pl) in M.discr_switches(b, lambda pl: pl["l"] == b.blocks[nexts[0]]["term"]["dest"]["l"]):
                somes += [t for v, t in sw["targets"] if v == "1"]
            for c in inloop:
                for s in somes:
                    if b.paths_avoiding(s, srcs, [c]):
                        r.viol("R1:visit_map#inherits-skip", "an iteration over `inherits` can bypass a membership test", file=b.file)
    # default can't inherit
    ck = M.call_blocks(b, r"BTreeMap::<K, V, A>::contains_key$")
    okc = False
    for c in ck:
        t = b.blocks[c]["term"]
        from mirlib import backward_slice
        arg = op_place(t["args"][1])
        ls, _ = backward_slice(b, arg["l"]) if arg else (set(), [])
        recv = op_place(t["args"][0])
        rs, _ = backward_slice(b, recv["l"]) if recv else (set(), [])
        if not (any(b.local_name(l) == "default" for l in ls) and any(b.local_name(l) == "extensions" for l in rs)):
            continue
        rsw = M.result_switch(b, c)
        if rsw is None or not b.dominates(c, ok):
            continue
        swb, t_true, t_false = rsw
        errs = [e for e in M.call_blocks(b, r"serde::de::Error::custom$") if b.dominates(swb, e)]
        if any(M.straight_reach(b, t_true, e) for e in errs) and M.exclusive_reach(b, t_false, ok, t_true) and not M.exclusive_reach(b, t_true, ok, t_false):
            okc = True
            r.inst("visit_map#default-cant-inherit", "Ok is dominated by extensions.contains_key(&default); true side returns a custom error")
    if not okc:
        r.viol("R1:visit_map#default-cant-inherit", "Ok(ConfigFile) is not guarded by `extensions.contains_key(&default)` with the error on the true side", file=b.file, line=b.line)
    # the struct is built from the validated locals
    for i, j, s in b.aggregates("cfg_file::ConfigFile", "ConfigFile"):
        names = []
        for op in s["rv"]["ops"]:
            p = op_place(op)
            from mirlib import backward_slice
            ls, _ = backward_slice(b, p["l"]) if p else (set(), [])
            nm = sorted({b.local_name(l) for l in ls if b.local_name(l)} & {"default", "locales", "name_spaces", "locales_dir", "translations_uri", "extensions"})
            names.append(nm)
        fields = s["rv"]["fields"]
        for f, nm in zip(fields, names):
            if f not in nm:
                r.viol("R1:visit_map#field-" + f, "ConfigFile.%s is not built from the deserialised `%s` (sources: %s)" % (f, f, nm), file=b.file)
        r.inst("visit_map#struct", "ConfigFile{%s} built from the same-named locals" % ", ".join(fields))


def r1_fields_ast(ctx, r):
    ast = ctx.ast
    want = {"DEFAULT": "default", "LOCALES": "locales", "NAMESPACES": "namespaces", "LOCALES_DIR": "locales-dir",
            "TRANSLATIONS_URI": "translations-path", "EXTENSIONS": "inherits"}
    for cname, val in want.items():
        c = ast.const(CFG, cname, "Field")
        if c is None:
            r.missing("Field::" + cname)
            continue
        got = c["expr"].get("str")
        r.inst("Field::" + cname, "= %r (documented configuration key)" % got)
        if got != val:
            r.viol("R1:Field::" + cname, "configuration key is %r, documented as %r" % (got, val), file=CFG, line=c["line"])
    fn = ast.fn(CFG, "visit_str", impl_self="FieldVisitor")
    if fn is None:
        return r.missing("FieldVisitor::visit_str")
    m = find_first(fn.body, "Match")
    variant_of = {"DEFAULT": "Default", "LOCALES": "Locales", "NAMESPACES": "Namespaces", "LOCALES_DIR": "LocalesDir",
                  "TRANSLATIONS_URI": "TranslationsUri", "EXTENSIONS": "Extensions"}
    seen = {}
    wild_ok = False
    for arm in (m or {"arms": []})["arms"]:
        p = arm["pat"]
        body = show(arm["body"])
        if p["k"] == "PPath" and p["path"].startswith("Field::"):
            seen[p["path"].split("::")[1]] = body
        elif p["k"] == "PWild":
            wild_ok = body == "Ok(Field::Unknown)"
    for cname, var in variant_of.items():
        if seen.get(cname) != "Ok(Field::%s)" % var:
            r.viol("R1:FieldVisitor#" + cname, "field name Field::%s maps to `%s`, expected Ok(Field::%s)" % (cname, seen.get(cname), var), file=CFG, line=fn.line)
        else:
            r.inst("FieldVisitor#" + cname, "Field::%s => Field::%s" % (cname, var))
    if not wild_ok:
        r.viol("R1:FieldVisitor#unknown", "unknown field names must map to Ok(Field::Unknown) (ignored), not to an error", file=CFG, line=fn.line)
    else:
        r.inst("FieldVisitor#_", "_ => Ok(Field::Unknown): unknown fields are ignored")
    vm = ast.fn(CFG, "visit_map", impl_self="CfgFileVisitor")
    if vm is None:
        return r.missing("CfgFileVisitor::visit_map (ast)")
    arms = {}
    for mm in find_all(vm.body, "Match"):
        if show(mm["scrutinee"]) == "field":
            for arm in mm["arms"]:
                arms[show(arm["pat"])] = show(arm["body"])
    tgt = {"Field::Default": ("default", "Field::DEFAULT"), "Field::Locales": ("locales", "Field::LOCALES"),
           "Field::Namespaces": ("name_spaces", "Field::NAMESPACES"), "Field::LocalesDir": ("locales_dir", "Field::LOCALES_DIR"),
           "Field::TranslationsUri": ("translations_uri", "Field::TRANSLATIONS_URI"), "Field::Extensions": ("extensions", "Field::EXTENSIONS")}
    for pat, (var, cn) in tgt.items():
        body = arms.get(pat, "")
        if "deser_field(&mut %s, &mut map, %s)" % (var, cn) not in body:
            r.viol("R1:visit_map#arm-" + pat, "%s does not deserialise into `%s` (arm: %s)" % (pat, var, body[:80]), file=CFG, line=vm.line)
        else:
            r.inst("visit_map#arm-" + pat, "-> deser_field(&mut %s, .., %s)" % (var, cn))
    if arms.get("Field::Unknown") != "continue":
        r.viol("R1:visit_map#arm-Unknown", "Field::Unknown must be skipped with `continue` (is: %s)" % arms.get("Field::Unknown"), file=CFG, line=vm.line)
    else:
        r.inst("visit_map#arm-Unknown", "Field::Unknown => continue")


def r2_paths(ctx, prog, r):
    for suffix in ("locale::Namespace::new", "locale::LocalesOrNamespaces::new"):
        b = prog.body(suffix)
        if b is None:
            r.missing(suffix)
            continue
        pushes = set(M.call_blocks(b, r"std::path::PathBuf::push$"))
        pops = set(M.call_blocks(b, r"std::path::PathBuf::pop$"))
        for (hdr, nodes, srcs) in M.loops(b):
            lp_push = pushes & nodes
            lp_pop = pops & nodes
            if not lp_push and not lp_pop:
                continue
            # enumerate acyclic paths header -> back edge inside the loop, tracking balance
            bad = []
            stack = [(hdr, 0, {hdr})]
            n_paths = 0
            while stack:
                blk, bal, seen = stack.pop()
                if blk in lp_push:
                    bal += 1
                if blk in lp_pop:
                    bal -= 1
                if blk in srcs:
                    n_paths += 1
                    if bal != 0:
                        bad.append(bal)
                    continue
                for s in b.succ(blk):
                    if s in nodes and s not in seen and s != hdr:
                        stack.append((s, bal, seen | {s}))
            site = "%s#loop@bb%d" % (suffix, hdr)
            if bad:
                r.viol("R2:%s#balance" % suffix, "push/pop on the shared path are unbalanced (%s) on a completing iteration: the next locale would be looked up under the wrong directory" % bad, file=b.file, line=b.line)
            elif len(lp_push) != len(lp_pop):
                r.viol("R2:%s#count" % suffix, "%d push vs %d pop in the per-locale loop" % (len(lp_push), len(lp_pop)), file=b.file, line=b.line)
            else:
                r.inst(site, "%d push / %d pop, balanced on all %d completing path(s)" % (len(lp_push), len(lp_pop), n_paths))
    ast = ctx.ast
    # components pushed
    exp = {
        ("LocalesOrNamespaces", "new"): ["manifest_dir_path.push(&*cfg_file.locales_dir)", "manifest_dir_path.push(&*locale.name)"],
        ("Namespace", "new"): ["locales_dir_path.push(&*locale.name)", "locales_dir_path.push(file_path)"],
    }
    for (ty, name), want in exp.items():
        fn = ast.fn(LOC, name, impl_self=ty)
        if fn is None:
            r.missing("%s::%s (ast)" % (ty, name))
            continue
        got = [show(c) for c in find_all(fn.body, "MethodCall") if c["method"] == "push" and "path" in show(c["receiver"])]
        if got != want:
            r.viol("R2:%s::%s#components" % (ty, name), "path components pushed are %s, expected %s" % (got, want), file=fn.file, line=fn.line)
        else:
            r.inst("%s::%s#components" % (ty, name), " / ".join(want))
        if ty == "Namespace":
            lets = [show(l) for l in find_all(fn.body, "Let") if show(l["pat"]).startswith("file_path")]
            if not any("key.name" in l for l in lets):
                r.viol("R2:Namespace::new#file_path", "file_path is not derived from the namespace key (%s)" % lets, file=fn.file, line=fn.line)
            else:
                r.inst("Namespace::new#file_path", lets[0])
    # find_file
    fn = ast.fn(LOC, "find_file")
    if fn is None:
        r.missing("find_file")
    else:
        loops = list(find_all(fn.body, "ForLoop"))
        ok = len(loops) == 1 and show(loops[0]["iter"]) == "FILE_EXTS"
        body = show(loops[0]["body"]) if loops else ""
        ok = ok and "path.set_extension(ext)" in body and "File::open(&path)" in body and "return Ok(file)" in body
        if ok:
            r.inst("find_file", "for ext in FILE_EXTS { path.set_extension(ext); File::open(&path) -> first that opens }")
        else:
            r.viol("R2:find_file", "find_file no longer tries exactly FILE_EXTS in order on the given path", file=fn.file, line=fn.line)
    fn = ast.fn(LOC, "get_files_exts")
    want = {"json_files": ["json"], "yaml_files": ["yaml", "yml"], "json5_files": ["json5"]}
    if fn is None:
        r.missing("get_files_exts")
    else:
        node = fn.body["stmts"][-1]["expr"] if fn.body["stmts"] else None
        got = {}
        while node is not None and node.get("k") == "If":
            m = re.search(r'feature\s*=\s*"(\w+)"', show(node["cond"]))
            arr = find_first(node["then"], "Array")
            if m and arr:
                got[m.group(1)] = [e.get("str") for e in arr["elems"]]
            node = node.get("else")
        if got != want:
            r.viol("R2:get_files_exts", "extension table is %s, documented %s" % (got, want), file=fn.file, line=fn.line)
        else:
            r.inst("get_files_exts", str(got))


def diag(ctx, prog, r):
    """F-DIAG for the configuration errors"""
    variants = ["ManifestNotFound", "ConfigNotPresent", "ConfigFileDeser", "DuplicateLocalesInConfig",
                "DuplicateNamespacesInConfig", "LocaleFileNotFound", "LocaleFileDeser", "CargoDirEnvNotPresent"]
    for v in variants:
        sites = []
        for name, b in prog.bodies.items():
            if b.crate != "leptos_i18n_parser":
                continue
            if "as std::fmt::Display>::fmt" in name or "as std::fmt::Debug>::fmt" in name:
                continue
            if any(True for _ in b.aggregates("parse_locales::error::Error", v)):
                sites.append(name)
            for i, t in b.calls():
                for a in t["args"]:
                    c = op_const(a)
                    if c and c.get("fn", "").endswith("error::Error::" + v):
                        sites.append(name)
        if sites:
            r.inst("Error::" + v, "constructed in " + ", ".join(sorted(set(sites))))
        else:
            r.viol("D:Error::" + v, "configuration error Error::%s has no construction site left: the condition it reported is no longer detected" % v)


# ---------------------------------------------------------------------------------------------- evaluation (R0)

PL = "leptos_i18n_parser/src/parse_locales/locale.rs"


def r0_config(ctx):
    """abstract evaluation (rules/absint.py) of ConfigFile::new, CfgFileVisitor::visit_map and LocalesOrNamespaces::new
    (with Namespace::new / find_file) on all small configurations; the expected outcome is taken from the statement"""
    import itertools
    from rules import absint
    from rules.absint import AEval, A, B, C, CF, L, T
    r = Rule("C19.R0", "small configurations: normalisation, rejections and the files opened are what the statement says",
             "`the default locale is always part of the locale list and comes first; duplicates, unknown / default `inherits`, "
             "missing required fields are rejected; unknown fields and the rest of Cargo.toml are ignored; locales-dir, namespaces "
             "and file extensions determine exactly which files are read`", floor=3)
    ast = ctx.ast
    S = lambda x: ("str", x)  # noqa: E731
    new = ast.fn(CFG, "new", impl_self="ConfigFile")
    vm = ast.fn(CFG, "visit_map", impl_self="CfgFileVisitor")
    vs = ast.fn(CFG, "visit_str", impl_self="FieldVisitor")
    lon = ast.fn(PL, "new", impl_self="LocalesOrNamespaces")
    nsn = ast.fn(PL, "new", impl_self="Namespace")
    if None in (new, vm, vs, lon, nsn):
        r.missing("ConfigFile::new / visit_map / FieldVisitor::visit_str / LocalesOrNamespaces::new / Namespace::new")
        return r, False, "anchor missing"
    funcs = absint.file_funcs(ast, CFG, impl_self="ConfigFile")
    HDR = "[package.metadata.leptos-i18n]"

    # ---- E1: ConfigFile::new around the deserialised value
    def run_new(manifest, cfgv):
        seen = {}

        def from_str(a):
            v = a[0]
            seen["text"] = "".join(chr(c[1]) for c in v[1]) if v[0] == "list" and all(c[0] == "char" for c in v[1]) else (v[1] if v[0] == "str" else None)
            return C("Ok", cfgv)
        rd = lambda a: C("Ok", S(manifest)) if manifest is not None else C("Err", A("io"))  # noqa: E731
        ev = AEval(funcs=funcs)
        ev.path_builtins = {"std::fs::read_to_string": rd, "fs::read_to_string": rd, "read_to_string": rd, "toml::de::from_str": from_str, "toml::from_str": from_str}
        return ev.run_fn(new, [L(S("<root>"))]), seen

    def cfg_value(locs, nss):
        return CF("ConfigFile", default=S("en"), locales=L(*[S(x) for x in locs]), name_spaces=C("None") if nss is None else C("Some", L(*[S(x) for x in nss])),
                  locales_dir=S("locales"), translations_uri=C("None"), extensions=L())

    def dups(xs):
        return sorted({x for x in xs if xs.count(x) > 1})
    n1 = 0
    for locs in ([], ["en"], ["fr"], ["fr", "en"], ["en", "fr"], ["fr", "de", "en"], ["fr", "fr"], ["en", "en"], ["fr", "en", "en"], ["de", "fr", "de", "fr"]):
        for nss in (None, [], ["a"], ["a", "b"], ["a", "a"], ["b", "a", "b"]):
            got, seen = run_new("[package]\nname = \"x\"\n\n" + HDR + "\ndefault = \"en\"\n[other]\nk = 1\n", cfg_value(locs, nss))
            if isinstance(got, str):
                return r, False, got
            n1 += 1
            full = locs if "en" in locs else locs + ["en"]
            case = "default = en, locales = %s, namespaces = %s" % (locs, nss)
            def same_err(g, w):
                # the payload is a set: compare without order
                return g[0] == "ctor" and g[1] == "Err" and g[2] and g[2][0][0] == "ctor" and g[2][0][1] == w[2][0][1] and g[2][0][2] and g[2][0][2][0][0] == "list" \
                    and sorted(g[2][0][2][0][1]) == sorted(w[2][0][2][0][1])
            if dups(full):
                want = C("Err", C("DuplicateLocalesInConfig", L(*[S(x) for x in dups(full)])))
                if not same_err(got, want):
                    r.viol("R0:ConfigFile::new#duplicate-locales", "%s: %s, expected %s" % (case, absint.fmt(got), absint.fmt(want)), file=CFG, line=new.line)
                continue
            if nss is not None and dups(nss):
                want = C("Err", C("DuplicateNamespacesInConfig", L(*[S(x) for x in dups(nss)])))
                if not same_err(got, want):
                    r.viol("R0:ConfigFile::new#duplicate-namespaces", "%s: %s, expected %s" % (case, absint.fmt(got), absint.fmt(want)), file=CFG, line=new.line)
                continue
            ok = got[0] == "ctor" and got[1] == "Ok" and got[2] and got[2][0][0] == "ctor"
            out = [x[1] for x in absint.fields_of(got[2][0]).get("locales", L())[1]] if ok else None
            if not ok or not out or out[0] != "en" or sorted(out) != sorted(full):
                r.viol("R0:ConfigFile::new#default-first", "%s: the locale list becomes %s, expected the default first followed by the other listed locales (%s)" % (case, out if ok else absint.fmt(got), sorted(full)), file=CFG, line=new.line)
            elif ok and absint.fields_of(got[2][0]).get("name_spaces") != absint.fields_of(cfg_value(locs, nss)).get("name_spaces"):
                r.viol("R0:ConfigFile::new#namespaces-kept", "%s: namespaces become %s" % (case, absint.fmt(absint.fields_of(got[2][0]).get("name_spaces"))), file=CFG, line=new.line)
    got, seen = run_new("[package]\nname = \"x\"\n\n" + HDR + "\ndefault = \"en\"\n", cfg_value(["en"], None))
    if seen.get("text") != "\n\n\n" + "\ndefault = \"en\"\n":
        r.viol("R0:ConfigFile::new#section", "the text handed to the TOML parser is %r: expected the i18n section only, preceded by one newline per manifest line before it" % seen.get("text"), file=CFG, line=new.line)
    got, _s = run_new("[package]\nname = \"x\"\n", cfg_value(["en"], None))
    if got != C("Err", C("ConfigNotPresent")):
        r.viol("R0:ConfigFile::new#no-section", "a manifest without the section gives %s" % (got if isinstance(got, str) else absint.fmt(got)), file=CFG, line=new.line)
    got, _s = run_new(None, cfg_value(["en"], None))
    if not (not isinstance(got, str) and got[0] == "ctor" and got[1] == "Err" and got[2] and got[2][0][1] == "ManifestNotFound"):
        r.viol("R0:ConfigFile::new#no-manifest", "an unreadable manifest gives %s" % (got if isinstance(got, str) else absint.fmt(got)), file=CFG, line=new.line)
    if not [v for v in r.violations if "ConfigFile::new" in v.key]:
        r.inst("ConfigFile::new", "%d (locales, namespaces) lists: default first and present once, duplicates rejected (locales before namespaces), section isolated, missing section / manifest reported" % n1)

    # ---- E2: the serde visitor
    consts = {}
    for cname in ("DEFAULT", "LOCALES", "NAMESPACES", "LOCALES_DIR", "TRANSLATIONS_URI", "EXTENSIONS"):
        c = ast.const(CFG, cname, "Field")
        if c is not None:
            consts["Field::" + cname] = S(c["expr"].get("str"))
    allf = absint.file_funcs(ast, CFG, impl_self="CfgFileVisitor")

    def run_vm(entries):
        m = CF("Map", entries=L(*[T(k, v) for k, v in entries]), pending=C("None"))

        def next_key(rv, a):
            ents = absint.fields_of(rv)["entries"][1]
            if not ents:
                return rv, C("Ok", C("None"))
            k, v = ents[0][1]
            return CF("Map", entries=L(*ents[1:]), pending=C("Some", v)), C("Ok", C("Some", k))

        def next_value(rv, a):
            fs = absint.fields_of(rv)
            if fs["pending"][1] != "Some":
                raise absint.Unknown("next_value without a pending key")
            return CF("Map", entries=fs["entries"], pending=C("None")), C("Ok", fs["pending"][2][0])
        ev = AEval(funcs=allf, consts=consts)
        ev.mut_builtins = {"next_key": next_key, "next_value": next_value, "replace": lambda rv, a: (C("Some", a[0]), rv)}
        ev.path_builtins = {}
        ev.error_ctor_names = ("missing_field", "duplicate_field", "custom")
        for pre in ("serde::de::Error::", "de::Error::", "Error::", "A::Error::", "<A::Error as serde::de::Error>::"):
            ev.path_builtins[pre + "missing_field"] = lambda a: C("missing_field", a[0])
            ev.path_builtins[pre + "duplicate_field"] = lambda a: C("duplicate_field", a[0])
            ev.path_builtins[pre + "custom"] = lambda a: C("custom", a[0])
        return ev.run_fn(vm, [A("visitor"), m])
    Fd = lambda n: C(n)  # noqa: E731
    n2 = 0

    def expect(label, entries, pred, want_text):
        nonlocal n2
        got = run_vm(entries)
        if isinstance(got, str):
            raise absint.Unknown(got)
        n2 += 1
        if not pred(got):
            r.viol("R0:visit_map#" + label, "%s: %s, expected %s" % (label, absint.fmt(got), want_text), file=CFG, line=vm.line)

    def is_err(kind, arg=None):
        return lambda g: g[0] == "ctor" and g[1] == "Err" and g[2] and g[2][0][0] == "ctor" and g[2][0][1] == kind and (arg is None or (g[2][0][2] and g[2][0][2][0] == S(arg)))

    def is_ok(**want):
        def f(g):
            if not (g[0] == "ctor" and g[1] == "Ok" and g[2] and g[2][0][0] == "ctor"):
                return False
            fs = absint.fields_of(g[2][0])
            return all(fs.get(k) == v or (v == L() and fs.get(k) == absint.DEFAULT) for k, v in want.items())
        return f
    base = [(Fd("Default"), S("en")), (Fd("Locales"), L(S("en"), S("fr"), S("de")))]
    try:
        expect("accepts", base, is_ok(default=S("en"), locales=L(S("en"), S("fr"), S("de")), locales_dir=S("locales"), name_spaces=C("None"), extensions=L()), "Ok with locales-dir defaulting to `locales`")
        expect("unknown-fields-ignored", [(Fd("Unknown"), A("x"))] + base[:1] + [(Fd("Unknown"), A("y"))] + base[1:] + [(Fd("Unknown"), A("z"))],
               is_ok(default=S("en"), locales=L(S("en"), S("fr"), S("de"))), "Ok: unknown fields are skipped")
        expect("optional-fields", base + [(Fd("LocalesDir"), S("i18n")), (Fd("Namespaces"), L(S("a"))), (Fd("TranslationsUri"), S("u"))],
               is_ok(locales_dir=S("i18n"), name_spaces=C("Some", L(S("a"))), translations_uri=C("Some", S("u"))), "Ok carrying locales-dir, namespaces, translations-path")
        expect("missing-default", base[1:], is_err("missing_field", "default"), "Err(missing_field(default))")
        expect("missing-locales", base[:1], is_err("missing_field", "locales"), "Err(missing_field(locales))")
        for fld, val in (("Default", S("fr")), ("Locales", L(S("fr"))), ("Namespaces", L(S("a"))), ("LocalesDir", S("d")), ("Extensions", L())):
            first = [(Fd(fld), val)] if fld not in ("Default", "Locales") else []
            expect("duplicate-" + fld, base + first + [(Fd(fld), val)], is_err("duplicate_field"), "Err(duplicate_field)")
        expect("inherits-ok", base + [(Fd("Extensions"), L(T(S("fr"), S("de")), T(S("de"), S("en"))))], is_ok(extensions=L(T(S("fr"), S("de")), T(S("de"), S("en")))), "Ok")
        expect("inherits-default-unlisted", [(Fd("Default"), S("en")), (Fd("Locales"), L(S("fr"))), (Fd("Extensions"), L(T(S("fr"), S("en"))))],
               is_ok(extensions=L(T(S("fr"), S("en")))), "Ok: the default locale is a known locale even when not listed")
        # the table is handed on as configured: fallback is decided per key (C03), so a cycle or a self reference is not
        # something the configuration may resolve (or prune) once and for all
        cyc = L(T(S("de"), S("fr")), T(S("fr"), S("de")))
        expect("inherits-cycle-kept", base + [(Fd("Extensions"), cyc)], is_ok(extensions=cyc), "Ok with both entries of the cycle kept")
        cyc3 = L(T(S("de"), S("fr")), T(S("fr"), S("de")), T(S("it"), S("fr")))
        expect("inherits-into-cycle-kept", [(Fd("Default"), S("en")), (Fd("Locales"), L(S("en"), S("fr"), S("de"), S("it"))), (Fd("Extensions"), cyc3)], is_ok(extensions=cyc3), "Ok with every entry kept")
        expect("inherits-self-kept", base + [(Fd("Extensions"), L(T(S("fr"), S("fr"))))], is_ok(extensions=L(T(S("fr"), S("fr")))), "Ok with the entry kept")
        expect("inherits-unknown-target", base + [(Fd("Extensions"), L(T(S("fr"), S("it"))))], is_err("custom"), "Err: unknown locale")
        expect("inherits-unknown-source", base + [(Fd("Extensions"), L(T(S("it"), S("fr"))))], is_err("custom"), "Err: unknown locale")
        expect("inherits-unknown-source-to-default", base + [(Fd("Extensions"), L(T(S("it"), S("en"))))], is_err("custom"), "Err: unknown locale (the entry names the default as its target)")
        expect("inherits-unknown-source-to-unlisted-default", [(Fd("Default"), S("en")), (Fd("Locales"), L(S("fr"))), (Fd("Extensions"), L(T(S("it"), S("en"))))], is_err("custom"), "Err: unknown locale")
        expect("inherits-second-entry-unknown", base + [(Fd("Extensions"), L(T(S("fr"), S("en")), T(S("it"), S("fr"))))], is_err("custom"), "Err: unknown locale in the second entry")
        expect("inherits-default", base + [(Fd("Extensions"), L(T(S("en"), S("fr"))))], is_err("custom"), "Err: the default locale cannot inherit")
        expect("inherits-default-unlisted-source", [(Fd("Default"), S("en")), (Fd("Locales"), L(S("fr"))), (Fd("Extensions"), L(T(S("en"), S("fr"))))], is_err("custom"), "Err: the default locale cannot inherit")
    except absint.Unknown as u:
        return r, False, str(u)
    names = {"default": "Default", "locales": "Locales", "namespaces": "Namespaces", "locales-dir": "LocalesDir", "translations-path": "TranslationsUri", "inherits": "Extensions",
             "Default": "Unknown", "locale": "Unknown", "": "Unknown", "locales_dir": "Unknown", "name_spaces": "Unknown"}
    for text, var in names.items():
        ev = AEval(funcs={}, consts=dict(consts, **{"Field::FIELDS": L()}))
        ev.error_ctor_names = ("unknown_field", "custom", "invalid_value", "unknown_variant")
        for pre in ("serde::de::Error::", "de::Error::", "Error::", "E::"):
            for nm in ("unknown_field", "custom", "invalid_value", "unknown_variant"):
                ev.path_builtins[pre + nm] = lambda a, nm=nm: C(nm, *a[:1])
        got = ev.run_fn(vs, [A("visitor"), S(text)])
        if isinstance(got, str):
            return r, False, got
        n2 += 1
        if got != C("Ok", C(var)):
            r.viol("R0:FieldVisitor#" + (text or "empty"), "the configuration key %r is read as %s, expected Field::%s" % (text, absint.fmt(got), var), file=CFG, line=vs.line)
    if not [v for v in r.violations if "visit_map#inherits" in v.key]:
        r.inst("CfgFileVisitor::visit_map#inherits-table", "valid `inherits` tables (chains, cycles, into a cycle, self reference, the unlisted default as target) reach ConfigFile.extensions entry for entry; unknown locales and an inheriting default are rejected")
    if not [v for v in r.violations if "visit_map" in v.key or "FieldVisitor" in v.key]:
        r.inst("CfgFileVisitor::visit_map", "%d field sequences / names: required fields, duplicates, unknown fields skipped, inherits validated against the locale list including the default" % n2)

    # ---- E3: which files are opened
    lf = absint.file_funcs(ast, PL, impl_self="LocalesOrNamespaces")
    K = lambda n: CF("Key", name=S(n))  # noqa: E731

    def run_files(cfgv, exts, fs):
        log = []

        def openf(a):
            pth = "/".join(x[1] for x in a[0][1])
            log.append(("open", pth))
            return C("Ok", A("file:" + pth)) if pth in fs else C("Err", A("io:" + pth))

        def locale_new(a):
            log.append(("parse", a[0], absint.fields_of(a[2]).get("name") if a[2][0] == "ctor" else a[2], a[3]))
            return C("Ok", A("locale"))

        def set_ext(rv, a):
            comps = list(rv[1])
            last = comps[-1][1]
            comps[-1] = S((last.rsplit(".", 1)[0] if "." in last else last) + "." + a[0][1])
            return L(*comps), B(True)
        f2 = dict(lf)
        f2["new"] = nsn
        ev = AEval(funcs=f2, consts={"FILE_EXTS": L(*[S(x) for x in exts])})
        ev.mut_builtins = {"set_extension": set_ext}
        ev.path_builtins = {"File::open": openf, "std::fs::File::open": openf, "fs::File::open": openf, "Locale::new": locale_new}
        ev.cfg = lambda t: True
        return ev.run_fn(lon, [L(S("<root>")), cfgv, A("fkp"), A("warnings"), L()]), log
    n3 = 0
    for ldir in ("locales", "i18n/locales", "../shared"):
        for nss in (None, ["common", "home"], []):
            for exts in (["json"], ["yaml", "yml"]):
                locs = ["en", "fr", "de"]
                cfgv = CF("ConfigFile", default=K("en"), locales=L(*[K(x) for x in locs]), name_spaces=C("None") if nss is None else C("Some", L(*[K(x) for x in nss])),
                          locales_dir=S(ldir), translations_uri=C("None"), extensions=L())
                stems = ["<root>/%s/%s" % (ldir, l) for l in locs] if nss is None else ["<root>/%s/%s/%s" % (ldir, l, n) for n in nss for l in locs]
                # every file exists with the LAST extension only: all extensions are probed in order, the existing one is parsed
                fs = {st + "." + exts[-1] for st in stems}
                got, log = run_files(cfgv, exts, fs)
                if isinstance(got, str):
                    return r, False, got
                n3 += 1
                want = []
                for st in stems:
                    for x in exts:
                        want.append(("open", st + "." + x))
                    want.append(("parsed", st + "." + exts[-1]))
                have = [(k, x[0]) if k == "open" else ("parsed", x[0][1][5:]) for (k, *x) in log]
                case = "locales-dir = %r, namespaces = %s, extensions %s" % (ldir, nss, exts)
                if not (got[0] == "ctor" and got[1] == "Ok") or have != want:
                    r.viol("R0:files#which", "%s: the files opened / parsed are %s (result %s); expected %s" % (case, have[:6], absint.fmt(got)[:60], want[:6]), file=PL, line=lon.line)
                    continue
                whom = [(absint.fmt(x[1]), absint.fmt(x[2])) for (k, *x) in log if k == "parse"]
                wantw = [(l, "None") for l in locs] if nss is None else [(l, "Some(Key(name: %s))" % n) for n in nss for l in locs]
                if whom != wantw:
                    r.viol("R0:files#owner", "%s: files are parsed as (locale, namespace) %s, expected %s" % (case, whom[:4], wantw[:4]), file=PL, line=lon.line)
                if nss == [] and not (got[0] == "ctor" and got[1] == "Ok" and got[2] and got[2][0][0] == "ctor" and got[2][0][1] == "NameSpaces" and not log):
                    r.viol("R0:files#empty-namespaces", "%s: `namespaces = []` declares a project made of namespaces with none listed - no file is read; got %s after %s" % (case, absint.fmt(got)[:80], have[:4]), file=PL, line=lon.line)
                # a missing file - whichever locale or namespace it belongs to - is an error naming every attempt
                for miss in sorted(fs):
                    got2, log2 = run_files(cfgv, exts, fs - {miss})
                    if isinstance(got2, str):
                        return r, False, got2
                    if not (got2[0] == "ctor" and got2[1] == "Err" and got2[2] and got2[2][0][0] == "ctor" and got2[2][0][1] == "LocaleFileNotFound"):
                        r.viol("R0:files#missing", "%s with %s missing: %s, expected Err(LocaleFileNotFound)" % (case, miss, absint.fmt(got2)[:80]), file=PL, line=lon.line)
                        break
    if not [v for v in r.violations if "files#" in v.key]:
        r.inst("LocalesOrNamespaces::new", "%d layouts: <manifest>/<locales-dir>/<locale>[/<namespace>].<ext>, extensions probed in order, one file per (locale, namespace), a missing file is LocaleFileNotFound" % n3)
    return r, True, None


def run(ctx):
    prog = ctx.mir("main")
    r0, ok, why = r0_config(ctx)
    rd = Rule("C19.D", "configuration diagnostics are still produced",
              "a validation that was deleted leaves its error variant without construction site", floor=8)
    diag(ctx, prog, rd)
    rk = Rule("C19.K", "configuration keys are the documented ones", "the keys of [package.metadata.leptos-i18n] as the book lists them", floor=6)
    want = {"DEFAULT": "default", "LOCALES": "locales", "NAMESPACES": "namespaces", "LOCALES_DIR": "locales-dir",
            "TRANSLATIONS_URI": "translations-path", "EXTENSIONS": "inherits"}
    for cname, val in want.items():
        c = ctx.ast.const(CFG, cname, "Field")
        if c is None:
            rk.missing("Field::" + cname)
        elif c["expr"].get("str") != val:
            rk.viol("K:Field::" + cname, "configuration key is %r, documented as %r" % (c["expr"].get("str"), val), file=CFG, line=c["line"])
        else:
            rk.inst("Field::" + cname, "= %r" % val)
    import os
    if ok and not os.environ.get("VERIF_FORCE_FALLBACK"):
        return [r0, rk, rd]
    # a construct outside rules/absint.py: fall back to the structural clauses on the MIR of the same functions
    r1 = Rule("C19.R1", "configuration validation dominates acceptance",
              "if a success return of ConfigFile::new / visit_map is reachable without a validation step, a configuration "
              "the documentation says is rejected (duplicates, unknown inherits, default inheriting, missing fields) or "
              "normalised (default first) is accepted as is", floor=25)
    r1_new(ctx, prog, r1)
    r1_visit_map(ctx, prog, r1)
    r1_fields_ast(ctx, r1)
    r2 = Rule("C19.R2", "file paths: balanced push/pop, documented components and extensions",
              "the PathBuf is shared across locales and namespaces; an unbalanced push/pop or a different component order "
              "makes later locales read from the wrong place", floor=7)
    r2_paths(ctx, prog, r2)
    if not ok and not r0.violations:
        r0.instances[:] = []
        r0.inst("evaluation not available", "fallback to structural rules R1/R2: %s" % str(why)[:160])
        r0.viol("R0:undecided", "the evaluation cannot interpret the current code (%s): the clauses it decides are NOT decided on this tree; the structural rules reported alongside only cover part of them (fail closed)" % str(why)[:300])
        r0.floor = 1
    return [r0, r1, r2, rk, rd]


MANIFEST_ENTRY = {
    "technique": "static analysis: abstract evaluation (rules/absint.py) of ConfigFile::new, CfgFileVisitor::visit_map (incl. inherits tables with chains, cycles, self reference: kept entry for entry), FieldVisitor::visit_str and LocalesOrNamespaces::new / Namespace::new / find_file over small configurations and a modelled file system, oracle from the statement; an unavailable evaluation is itself reported; MIR who-constructs check for every configuration error; MIR dominance / push-pop rules alongside as fallback",
    "level_text": "Finite abstract evaluation: all (locales, namespaces) lists of the universe, 17 field sequences and 12 directory layouts are interpreted; default-first normalisation, every documented rejection, ignored fields / manifest text and the exact files probed are compared with the statement. toml and the file system are modelled, not run.",
    "level_note": "Trusted: toml/serde drive the visitor as documented. Not decided: the files opened for a concrete layout.",
}
