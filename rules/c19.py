"""C19 Configuration is validated and normalised as documented."""
import re

from report import Rule
from mirlib import callee_name, op_const, op_place
import mustlib as M
import panics
from astlib import find_all, show, callee_path, find_first

EXPLANATION = (
    "Static structural analysis (MIR dominance/must-pass-through + syntax facts), nothing executed. Decided clauses: "
    "(R1) in ConfigFile::new every path to Ok(cfg) passes the default-first step (swap(0, position) or push + swap(0, len) "
    "on cfg.locales) and both duplicate checks, whose Some-branches build DuplicateLocalesInConfig / "
    "DuplicateNamespacesInConfig and cannot reach Ok; in CfgFileVisitor::visit_map Ok(ConfigFile) is dominated by the "
    "presence tests of `default` and `locales` (missing_field on the None side), by the loop over `inherits` whose every "
    "iteration tests both ends with locales.contains (error on the false side), and by extensions.contains_key(&default) "
    "(error on the true side); unknown fields are skipped, the field-name table is the documented one. (R2) the shared "
    "PathBuf is pushed/popped in balance on every non-error path of the per-locale loops, the path components are "
    "<locales-dir>/<locale>[/<namespace>] and find_file tries exactly the extensions of the enabled format. "
    "(D) every configuration error variant still has a construction site. NOT decided: which concrete files are opened "
    "for a concrete layout, TOML parsing itself."
)
ASSUMPTIONS = [
    "toml::de::from_str and serde drive the visitor as documented (visit_map, next_key, next_value)",
    "the per-format extension table is the documented one (json; yaml/yml; json5)",
]

CFG = "leptos_i18n_parser/src/parse_locales/cfg_file.rs"
LOC = "leptos_i18n_parser/src/parse_locales/locale.rs"


def r1_new(ctx, prog, r):
    b = prog.body("cfg_file::ConfigFile::new")
    if b is None:
        return r.missing("ConfigFile::new")
    oks = M.ok_return_blocks(b)
    if len(oks) != 1:
        return r.viol("R1:ConfigFile::new#ok", "expected one Ok(cfg) return, found %d" % len(oks), file=b.file)
    ok = oks[0]
    # default-first step
    swaps = M.call_blocks(b, r"core::slice::<impl \[T\]>::swap$")
    good_swaps = []
    for sb in swaps:
        t = b.blocks[sb]["term"]
        c = op_const(t["args"][1])
        recv = op_place(t["args"][0])
        first_is_zero = bool(c and c.get("int") == "0")
        on_locales = recv is not None and M.derives_from_field(b, prog, recv["l"], "cfg_file::ConfigFile", "locales")
        if first_is_zero and on_locales:
            good_swaps.append(sb)
    inserts = []
    for ib in M.call_blocks(b, r"std::vec::Vec::<T, A>::insert$"):
        t = b.blocks[ib]["term"]
        c = op_const(t["args"][1])
        recv = op_place(t["args"][0])
        if c and c.get("int") == "0" and recv is not None and M.derives_from_field(b, prog, recv["l"], "cfg_file::ConfigFile", "locales"):
            inserts.append(ib)
    r.inst("ConfigFile::new#swap", "%d swap(0, _) / %d insert(0, _) on cfg.locales" % (len(good_swaps), len(inserts)))
    # the duplicate check must see every locale that was written in the file: nothing may be removed before it
    dupchk = M.call_blocks(b, r"cfg_file::ConfigFile::contain_duplicates$")
    removers = M.call_blocks(b, r"std::vec::Vec::<T, A>::(retain|retain_mut|dedup|dedup_by|dedup_by_key|remove|swap_remove|truncate|drain|clear|pop|split_off|extract_if)$")
    for rb in removers:
        recv = op_place(b.blocks[rb]["term"]["args"][0])
        if recv is not None and M.derives_from_field(b, prog, recv["l"], "cfg_file::ConfigFile", "locales") and b.paths_avoiding(rb, dupchk, []):
            r.viol("R1:ConfigFile::new#removes-before-dup-check", "`%s` drops declared locales before the duplicate check runs: a locale listed twice is no longer reported" % (callee_name(b.blocks[rb]["term"]) or "").split("::")[-1], file=b.file, line=b.blocks[rb]["term"]["line"])
    if not removers:
        r.inst("ConfigFile::new#no-removal", "no element-removing call on cfg.locales before contain_duplicates")
    good_swaps_only = list(good_swaps)
    good_swaps = good_swaps + inserts
    if not good_swaps or not M.must_pass(b, good_swaps, [ok]):
        r.viol("R1:ConfigFile::new#default-first", "a path reaches Ok(cfg) without `cfg.locales.swap(0, ..)` / `insert(0, ..)`: the default locale is not moved to the front", file=b.file, line=b.line)
    # each swap: index is the position() result, or follows a push of cfg.default
    pos = M.call_blocks(b, r"Iterator>::position$|Iterator::position$")
    pushes = M.call_blocks(b, r"std::vec::Vec::<T, A>::push$")
    for sb in good_swaps_only:
        dom_pos = any(b.dominates(p, sb) for p in pos)
        dom_push = any(b.dominates(p, sb) for p in pushes)
        some_side = False
        for p in pos:
            for (swb, sw, place) in M.discr_switches(b, lambda pl: pl["l"] == b.blocks[p]["term"]["dest"]["l"]):
                some = [t for v, t in sw["targets"] if v == "1"]
                if some and b.dominates(some[0], sb):
                    some_side = True
        if some_side:
            r.inst("ConfigFile::new#swap@position", "swap(0, i) on the Some(i) side of position(|l| l == default)")
        elif dom_push and dom_pos:
            r.inst("ConfigFile::new#swap@push", "push(default) then swap(0, len) on the None side")
        else:
            r.viol("R1:ConfigFile::new#swap-index", "swap(0, _) is neither on the Some side of position() nor preceded by push(default)", file=b.file, line=b.blocks[sb]["term"]["line"])
    # duplicate checks
    direct = M.call_blocks(b, r"cfg_file::ConfigFile::contain_duplicates$")
    indirect = [i for i, t in b.calls() if any((op_const(a) or {}).get("fn", "").endswith("ConfigFile::contain_duplicates") for a in t["args"])]
    r.inst("ConfigFile::new#contain_duplicates", "direct call blocks %s, passed as fn item in blocks %s" % (direct, indirect))
    for what, blocks, variant in (("locales", direct, "DuplicateLocalesInConfig"), ("namespaces", indirect, "DuplicateNamespacesInConfig")):
        if not blocks or not M.must_pass(b, blocks, [ok]):
            r.viol("R1:ConfigFile::new#dup-" + what, "a path reaches Ok(cfg) without the duplicate check on %s" % what, file=b.file, line=b.line)
            continue
        errs = M.agg_blocks(b, "error::Error", variant)
        if not errs:
            r.viol("R1:ConfigFile::new#" + variant, "Error::%s is no longer constructed in ConfigFile::new" % variant, file=b.file, line=b.line)
            continue
        for e in errs:
            if b.paths_avoiding(e, [ok], []):
                r.viol("R1:ConfigFile::new#%s-falls-through" % variant, "the %s branch can still reach Ok(cfg)" % variant, file=b.file)
            if not any(b.dominates(c, e) for c in blocks):
                r.viol("R1:ConfigFile::new#%s-unguarded" % variant, "Error::%s is not control dependent on the duplicate check" % variant, file=b.file)
        # the check on locales must see the list after the default was inserted
        if what == "locales" and good_swaps and not all(any(b.dominates(s, c) for s in good_swaps) or M.must_pass(b, good_swaps, [c]) for c in blocks):
            r.viol("R1:ConfigFile::new#dup-before-default", "duplicate check on locales runs before the default locale is inserted", file=b.file)
        r.inst("ConfigFile::new#" + variant, "constructed in blocks %s, guarded by the check, cannot reach Ok" % errs)


def r1_visit_map(ctx, prog, r):
    b = prog.body("<leptos_i18n_parser::parse_locales::cfg_file::CfgFileVisitor as serde::de::Visitor<'de>>::visit_map")
    if b is None:
        return r.missing("CfgFileVisitor::visit_map")
    oks = M.ok_return_blocks(b)
    if len(oks) != 1:
        return r.viol("R1:visit_map#ok", "expected one Ok(ConfigFile{..}) return, found %d" % len(oks), file=b.file)
    ok = oks[0]
    # required fields
    for fld in ("default", "locales"):
        mf = M.call_blocks(b, r"serde::de::Error::missing_field$", lambda t, fld=fld: panics.const_str_arg(b, t, 0) == fld)
        sws = [(i, sw) for (i, sw, pl) in M.discr_switches(b, lambda pl, fld=fld: b.local_name(pl["l"]) == fld and b.local_ty(pl["l"]).startswith("std::option::Option"))]
        if not mf:
            r.viol("R1:visit_map#missing_field-" + fld, "missing_field(\"%s\") is no longer produced" % fld, file=b.file, line=b.line)
            continue
        good = False
        for (i, sw) in sws:
            none_side = sw["otherwise"]
            some = [t for v, t in sw["targets"] if v == "1"]
            if b.dominates(i, ok) and any(M.exclusive_reach(b, none_side, m, some[0] if some else -1) for m in mf) and not b.paths_avoiding(mf[0], [ok], []):
                good = True
        if good:
            r.inst("visit_map#required-" + fld, "Ok is dominated by the Some/None test of `%s`; None side returns missing_field(\"%s\")" % (fld, fld))
        else:
            r.viol("R1:visit_map#required-" + fld, "Ok(ConfigFile) is not dominated by a presence test of `%s` whose None side reports missing_field" % fld, file=b.file, line=b.line)
    # inherits loop
    nexts = M.call_blocks(b, r"btree_map::Iter<.*> as std::iter::Iterator>::next$")
    contains = M.call_blocks(b, r"core::slice::<impl \[T\]>::contains$")
    r.inst("visit_map#inherits-loop", "iterator next blocks %s, contains blocks %s" % (nexts, contains))
    if len(nexts) != 1 or not b.dominates(nexts[0], ok):
        r.viol("R1:visit_map#inherits-loop", "Ok(ConfigFile) is not dominated by the loop over `inherits`", file=b.file, line=b.line)
    else:
        lp = M.loop_of(b, nexts[0])
        if lp is None:
            r.viol("R1:visit_map#inherits-loop", "the iteration over `inherits` is not a loop", file=b.file)
        else:
            hdr, nodes = lp
            inloop = [c for c in contains if c in nodes]
            vars_checked = set()
            for c in inloop:
                t = b.blocks[c]["term"]
                # which loop variable is tested: the second argument derives from k or v
                arg = op_place(t["args"][1])
                name = None
                seen, found = set(), []
                from mirlib import backward_slice
                ls, _ = backward_slice(b, arg["l"]) if arg else (set(), [])
                for l in ls:
                    if b.local_name(l) in ("k", "v"):
                        name = b.local_name(l)
                recv = op_place(t["args"][0])
                rs, _ = backward_slice(b, recv["l"]) if recv else (set(), [])
                on_locales = any(b.local_name(l) == "locales" for l in rs)
                rsw = M.result_switch(b, c)
                if rsw is None:
                    r.viol("R1:visit_map#contains-unused", "result of locales.contains(..) is not branched on", file=b.file, line=t["line"])
                    continue
                swb, t_true, t_false = rsw
                errs = [e for e in M.call_blocks(b, r"serde::de::Error::custom$") if e in nodes or b.dominates(swb, e)]
                err_on_false = any(M.straight_reach(b, t_false, e) for e in errs)
                err_on_true = any(M.straight_reach(b, t_true, e) for e in errs)
                if on_locales and name and err_on_false and not err_on_true:
                    vars_checked.add(name)
                    r.inst("visit_map#inherits-%s" % name, "`!locales.contains(%s)` -> custom error; membership tested for the %s of every inherits entry" % (name, "key" if name == "k" else "value"))
                else:
                    r.viol("R1:visit_map#contains-%s" % (name or "?"), "membership test of inherits entry is malformed (on locales=%s, var=%s, error on false side=%s, on true side=%s)" % (on_locales, name, err_on_false, err_on_true), file=b.file, line=t["line"])
            for v in ("k", "v"):
                if v not in vars_checked:
                    r.viol("R1:visit_map#inherits-unchecked-" + v, "the %s of an `inherits` entry is not checked against the locale list" % ("key" if v == "k" else "value"), file=b.file, line=b.line)
            # every iteration passes both tests
            srcs = [s for (s, h) in b.back_edges() if h == hdr or s in nodes]
            somes = []
            for (i, sw, pl) in M.discr_switches(b, lambda pl: pl["l"] == b.blocks[nexts[0]]["term"]["dest"]["l"]):
                somes += [t for v, t in sw["targets"] if v == "1"]
            for c in inloop:
                for s in somes:
                    if b.paths_avoiding(s, srcs, [c]):
                        r.viol("R1:visit_map#inherits-skip", "an iteration over `inherits` can bypass a membership test", file=b.file)
    # default can't inherit
    ck = M.call_blocks(b, r"BTreeMap::<K, V, A>::contains_key$")
    okc = False
    for c in ck:
        t = b.blocks[c]["term"]
        from mirlib import backward_slice
        arg = op_place(t["args"][1])
        ls, _ = backward_slice(b, arg["l"]) if arg else (set(), [])
        recv = op_place(t["args"][0])
        rs, _ = backward_slice(b, recv["l"]) if recv else (set(), [])
        if not (any(b.local_name(l) == "default" for l in ls) and any(b.local_name(l) == "extensions" for l in rs)):
            continue
        rsw = M.result_switch(b, c)
        if rsw is None or not b.dominates(c, ok):
            continue
        swb, t_true, t_false = rsw
        errs = [e for e in M.call_blocks(b, r"serde::de::Error::custom$") if b.dominates(swb, e)]
        if any(M.straight_reach(b, t_true, e) for e in errs) and M.exclusive_reach(b, t_false, ok, t_true) and not M.exclusive_reach(b, t_true, ok, t_false):
            okc = True
            r.inst("visit_map#default-cant-inherit", "Ok is dominated by extensions.contains_key(&default); true side returns a custom error")
    if not okc:
        r.viol("R1:visit_map#default-cant-inherit", "Ok(ConfigFile) is not guarded by `extensions.contains_key(&default)` with the error on the true side", file=b.file, line=b.line)
    # the struct is built from the validated locals
    for i, j, s in b.aggregates("cfg_file::ConfigFile", "ConfigFile"):
        names = []
        for op in s["rv"]["ops"]:
            p = op_place(op)
            from mirlib import backward_slice
            ls, _ = backward_slice(b, p["l"]) if p else (set(), [])
            nm = sorted({b.local_name(l) for l in ls if b.local_name(l)} & {"default", "locales", "name_spaces", "locales_dir", "translations_uri", "extensions"})
            names.append(nm)
        fields = s["rv"]["fields"]
        for f, nm in zip(fields, names):
            if f not in nm:
                r.viol("R1:visit_map#field-" + f, "ConfigFile.%s is not built from the deserialised `%s` (sources: %s)" % (f, f, nm), file=b.file)
        r.inst("visit_map#struct", "ConfigFile{%s} built from the same-named locals" % ", ".join(fields))


def r1_fields_ast(ctx, r):
    ast = ctx.ast
    want = {"DEFAULT": "default", "LOCALES": "locales", "NAMESPACES": "namespaces", "LOCALES_DIR": "locales-dir",
            "TRANSLATIONS_URI": "translations-path", "EXTENSIONS": "inherits"}
    for cname, val in want.items():
        c = ast.const(CFG, cname, "Field")
        if c is None:
            r.missing("Field::" + cname)
            continue
        got = c["expr"].get("str")
        r.inst("Field::" + cname, "= %r (documented configuration key)" % got)
        if got != val:
            r.viol("R1:Field::" + cname, "configuration key is %r, documented as %r" % (got, val), file=CFG, line=c["line"])
    fn = ast.fn(CFG, "visit_str", impl_self="FieldVisitor")
    if fn is None:
        return r.missing("FieldVisitor::visit_str")
    m = find_first(fn.body, "Match")
    variant_of = {"DEFAULT": "Default", "LOCALES": "Locales", "NAMESPACES": "Namespaces", "LOCALES_DIR": "LocalesDir",
                  "TRANSLATIONS_URI": "TranslationsUri", "EXTENSIONS": "Extensions"}
    seen = {}
    wild_ok = False
    for arm in (m or {"arms": []})["arms"]:
        p = arm["pat"]
        body = show(arm["body"])
        if p["k"] == "PPath" and p["path"].startswith("Field::"):
            seen[p["path"].split("::")[1]] = body
        elif p["k"] == "PWild":
            wild_ok = body == "Ok(Field::Unknown)"
    for cname, var in variant_of.items():
        if seen.get(cname) != "Ok(Field::%s)" % var:
            r.viol("R1:FieldVisitor#" + cname, "field name Field::%s maps to `%s`, expected Ok(Field::%s)" % (cname, seen.get(cname), var), file=CFG, line=fn.line)
        else:
            r.inst("FieldVisitor#" + cname, "Field::%s => Field::%s" % (cname, var))
    if not wild_ok:
        r.viol("R1:FieldVisitor#unknown", "unknown field names must map to Ok(Field::Unknown) (ignored), not to an error", file=CFG, line=fn.line)
    else:
        r.inst("FieldVisitor#_", "_ => Ok(Field::Unknown): unknown fields are ignored")
    vm = ast.fn(CFG, "visit_map", impl_self="CfgFileVisitor")
    if vm is None:
        return r.missing("CfgFileVisitor::visit_map (ast)")
    arms = {}
    for mm in find_all(vm.body, "Match"):
        if show(mm["scrutinee"]) == "field":
            for arm in mm["arms"]:
                arms[show(arm["pat"])] = show(arm["body"])
    tgt = {"Field::Default": ("default", "Field::DEFAULT"), "Field::Locales": ("locales", "Field::LOCALES"),
           "Field::Namespaces": ("name_spaces", "Field::NAMESPACES"), "Field::LocalesDir": ("locales_dir", "Field::LOCALES_DIR"),
           "Field::TranslationsUri": ("translations_uri", "Field::TRANSLATIONS_URI"), "Field::Extensions": ("extensions", "Field::EXTENSIONS")}
    for pat, (var, cn) in tgt.items():
        body = arms.get(pat, "")
        if "deser_field(&mut %s, &mut map, %s)" % (var, cn) not in body:
            r.viol("R1:visit_map#arm-" + pat, "%s does not deserialise into `%s` (arm: %s)" % (pat, var, body[:80]), file=CFG, line=vm.line)
        else:
            r.inst("visit_map#arm-" + pat, "-> deser_field(&mut %s, .., %s)" % (var, cn))
    if arms.get("Field::Unknown") != "continue":
        r.viol("R1:visit_map#arm-Unknown", "Field::Unknown must be skipped with `continue` (is: %s)" % arms.get("Field::Unknown"), file=CFG, line=vm.line)
    else:
        r.inst("visit_map#arm-Unknown", "Field::Unknown => continue")


def r2_paths(ctx, prog, r):
    for suffix in ("locale::Namespace::new", "locale::LocalesOrNamespaces::new"):
        b = prog.body(suffix)
        if b is None:
            r.missing(suffix)
            continue
        pushes = set(M.call_blocks(b, r"std::path::PathBuf::push$"))
        pops = set(M.call_blocks(b, r"std::path::PathBuf::pop$"))
        for (hdr, nodes, srcs) in M.loops(b):
            lp_push = pushes & nodes
            lp_pop = pops & nodes
            if not lp_push and not lp_pop:
                continue
            # enumerate acyclic paths header -> back edge inside the loop, tracking balance
            bad = []
            stack = [(hdr, 0, {hdr})]
            n_paths = 0
            while stack:
                blk, bal, seen = stack.pop()
                if blk in lp_push:
                    bal += 1
                if blk in lp_pop:
                    bal -= 1
                if blk in srcs:
                    n_paths += 1
                    if bal != 0:
                        bad.append(bal)
                    continue
                for s in b.succ(blk):
                    if s in nodes and s not in seen and s != hdr:
                        stack.append((s, bal, seen | {s}))
            site = "%s#loop@bb%d" % (suffix, hdr)
            if bad:
                r.viol("R2:%s#balance" % suffix, "push/pop on the shared path are unbalanced (%s) on a completing iteration: the next locale would be looked up under the wrong directory" % bad, file=b.file, line=b.line)
            elif len(lp_push) != len(lp_pop):
                r.viol("R2:%s#count" % suffix, "%d push vs %d pop in the per-locale loop" % (len(lp_push), len(lp_pop)), file=b.file, line=b.line)
            else:
                r.inst(site, "%d push / %d pop, balanced on all %d completing path(s)" % (len(lp_push), len(lp_pop), n_paths))
    ast = ctx.ast
    # components pushed
    exp = {
        ("LocalesOrNamespaces", "new"): ["manifest_dir_path.push(&*cfg_file.locales_dir)", "manifest_dir_path.push(&*locale.name)"],
        ("Namespace", "new"): ["locales_dir_path.push(&*locale.name)", "locales_dir_path.push(file_path)"],
    }
    for (ty, name), want in exp.items():
        fn = ast.fn(LOC, name, impl_self=ty)
        if fn is None:
            r.missing("%s::%s (ast)" % (ty, name))
            continue
        got = [show(c) for c in find_all(fn.body, "MethodCall") if c["method"] == "push" and "path" in show(c["receiver"])]
        if got != want:
            r.viol("R2:%s::%s#components" % (ty, name), "path components pushed are %s, expected %s" % (got, want), file=fn.file, line=fn.line)
        else:
            r.inst("%s::%s#components" % (ty, name), " / ".join(want))
        if ty == "Namespace":
            lets = [show(l) for l in find_all(fn.body, "Let") if show(l["pat"]).startswith("file_path")]
            if not any("key.name" in l for l in lets):
                r.viol("R2:Namespace::new#file_path", "file_path is not derived from the namespace key (%s)" % lets, file=fn.file, line=fn.line)
            else:
                r.inst("Namespace::new#file_path", lets[0])
    # find_file
    fn = ast.fn(LOC, "find_file")
    if fn is None:
        r.missing("find_file")
    else:
        loops = list(find_all(fn.body, "ForLoop"))
        ok = len(loops) == 1 and show(loops[0]["iter"]) == "FILE_EXTS"
        body = show(loops[0]["body"]) if loops else ""
        ok = ok and "path.set_extension(ext)" in body and "File::open(&path)" in body and "return Ok(file)" in body
        if ok:
            r.inst("find_file", "for ext in FILE_EXTS { path.set_extension(ext); File::open(&path) -> first that opens }")
        else:
            r.viol("R2:find_file", "find_file no longer tries exactly FILE_EXTS in order on the given path", file=fn.file, line=fn.line)
    fn = ast.fn(LOC, "get_files_exts")
    want = {"json_files": ["json"], "yaml_files": ["yaml", "yml"], "json5_files": ["json5"]}
    if fn is None:
        r.missing("get_files_exts")
    else:
        node = fn.body["stmts"][-1]["expr"] if fn.body["stmts"] else None
        got = {}
        while node is not None and node.get("k") == "If":
            m = re.search(r'feature\s*=\s*"(\w+)"', show(node["cond"]))
            arr = find_first(node["then"], "Array")
            if m and arr:
                got[m.group(1)] = [e.get("str") for e in arr["elems"]]
            node = node.get("else")
        if got != want:
            r.viol("R2:get_files_exts", "extension table is %s, documented %s" % (got, want), file=fn.file, line=fn.line)
        else:
            r.inst("get_files_exts", str(got))


def diag(ctx, prog, r):
    """F-DIAG for the configuration errors"""
    variants = ["ManifestNotFound", "ConfigNotPresent", "ConfigFileDeser", "DuplicateLocalesInConfig",
                "DuplicateNamespacesInConfig", "LocaleFileNotFound", "LocaleFileDeser", "CargoDirEnvNotPresent"]
    for v in variants:
        sites = []
        for name, b in prog.bodies.items():
            if b.crate != "leptos_i18n_parser":
                continue
            if "as std::fmt::Display>::fmt" in name or "as std::fmt::Debug>::fmt" in name:
                continue
            if any(True for _ in b.aggregates("parse_locales::error::Error", v)):
                sites.append(name)
            for i, t in b.calls():
                for a in t["args"]:
                    c = op_const(a)
                    if c and c.get("fn", "").endswith("error::Error::" + v):
                        sites.append(name)
        if sites:
            r.inst("Error::" + v, "constructed in " + ", ".join(sorted(set(sites))))
        else:
            r.viol("D:Error::" + v, "configuration error Error::%s has no construction site left: the condition it reported is no longer detected" % v)


def run(ctx):
    prog = ctx.mir("main")
    r1 = Rule("C19.R1", "configuration validation dominates acceptance",
              "if a success return of ConfigFile::new / visit_map is reachable without a validation step, a configuration "
              "the documentation says is rejected (duplicates, unknown inherits, default inheriting, missing fields) or "
              "normalised (default first) is accepted as is", floor=25)
    r1_new(ctx, prog, r1)
    r1_visit_map(ctx, prog, r1)
    r1_fields_ast(ctx, r1)
    r2 = Rule("C19.R2", "file paths: balanced push/pop, documented components and extensions",
              "the PathBuf is shared across locales and namespaces; an unbalanced push/pop or a different component order "
              "makes later locales read from the wrong place", floor=7)
    r2_paths(ctx, prog, r2)
    rd = Rule("C19.D", "configuration diagnostics are still produced",
              "a validation that was deleted leaves its error variant without construction site", floor=8)
    diag(ctx, prog, rd)
    return [r1, r2, rd]


MANIFEST_ENTRY = {
    "technique": "static analysis: MIR dominance / must-pass-through with branch polarity on validation calls, loop push/pop balance, syn table extraction",
    "level_text": "Structural: every success return of the configuration loader is shown (on the CFG, for all inputs) to be dominated by each documented validation with the error on the right branch, and the path arithmetic is shown balanced. It does not run toml or open files.",
    "level_note": "Trusted: toml/serde drive the visitor as documented. Not decided: the files opened for a concrete layout.",
}
