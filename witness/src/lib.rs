//! Compile-fail witnesses for C08: the arguments of a key are the union over all locales
//! (`mixed` is a plain string in `en`, a variable + a component in `fr`, a range in `de`),
//! and each of them is mandatory. Every `compile_fail` block has a compiling twin that differs
//! only by the offending argument.
//!
//! # view back-end
//!
//! twin (compiles):
//! ```
//! use witness::i18n::*;
//! use leptos::prelude::*;
//! let _ = leptos_i18n::td!(Locale::en, mixed, name = "n", count = || 1, <b> = |c: ChildrenFn| view! { <b>{c()}</b> });
//! ```
//! variable used only by `fr` omitted:
//! ```compile_fail,E0061
//! use witness::i18n::*;
//! use leptos::prelude::*;
//! let _ = leptos_i18n::td!(Locale::en, mixed, count = || 1, <b> = |c: ChildrenFn| view! { <b>{c()}</b> });
//! ```
//! count used only by `de` omitted:
//! ```compile_fail,E0061
//! use witness::i18n::*;
//! use leptos::prelude::*;
//! let _ = leptos_i18n::td!(Locale::en, mixed, name = "n", <b> = |c: ChildrenFn| view! { <b>{c()}</b> });
//! ```
//! component used only by `fr` omitted:
//! ```compile_fail,E0061
//! use witness::i18n::*;
//! use leptos::prelude::*;
//! let _ = leptos_i18n::td!(Locale::en, mixed, name = "n", count = || 1);
//! ```
//!
//! # string back-end
//!
//! twin (compiles):
//! ```
//! use witness::i18n::*;
//! let _ = leptos_i18n::td_string!(Locale::en, mixed, name = "n", count = 1, <b> = "b");
//! ```
//! variable omitted:
//! ```compile_fail,E0599
//! use witness::i18n::*;
//! let _ = leptos_i18n::td_string!(Locale::en, mixed, count = 1, <b> = "b");
//! ```
//! count omitted:
//! ```compile_fail,E0599
//! use witness::i18n::*;
//! let _ = leptos_i18n::td_string!(Locale::en, mixed, name = "n", <b> = "b");
//! ```
//! component omitted:
//! ```compile_fail,E0599
//! use witness::i18n::*;
//! let _ = leptos_i18n::td_string!(Locale::en, mixed, name = "n", count = 1);
//! ```
//!
//! # keys
//!
//! twin (compiles):
//! ```
//! use witness::i18n::*;
//! let _ = leptos_i18n::td_string!(Locale::en, plain);
//! ```
//! unknown key:
//! ```compile_fail,E0599
//! use witness::i18n::*;
//! let _ = leptos_i18n::td_string!(Locale::en, not_a_key);
//! ```
//! an argument the key does not have:
//! ```compile_fail,E0599
//! use witness::i18n::*;
//! let _ = leptos_i18n::td_string!(Locale::en, plain, name = "n");
//! ```

leptos_i18n::load_locales!();
