"""Return-value summaries of straight-line MIR bodies.

For a function without branches the value it returns is an expression over its parameters: `p1.0`,
`Literal::into_str(p1.0)`, `ScopedLocale { locale: <L as FromStr>::from_str(p1)?, .. }` ... The summary is computed
from MIR dataflow, so it is the same for `self.0` and `self.inner()`, method and path call syntax, any local names,
and any way of splitting the expression over `let`s. Calls to local straight-line functions are inlined (depth 3).
References, dereferences, moves/copies and pointer-preserving casts are erased (value level)."""
from mirlib import callee_of, op_const, op_place


def _field(prog, body, base_local, idx, variant=None):
    import re
    ty = re.sub(r"^&(mut )?", "", body.local_ty(base_local))
    ty = re.sub(r"<.*$", "", ty)
    adt = prog.adts.get(ty)
    try:
        return adt["variants"][variant or 0]["fields"][idx]["name"]
    except Exception:
        return str(idx)


def summary(prog, body, depth=3, args=None, stop=None, effects=None):
    """term (nested tuples) for the return value, or None when the body branches / loops. `stop`: regex of callees
    that are not inlined. `effects`: list that receives ("store", place, value) / ("call", ..) terms of statements
    whose result is not part of the return value (writes through references, calls evaluated for their effect)."""
    import re as _re
    env = {}
    used_calls = []
    if args is None:
        for i in range(1, body.arg_count + 1):
            env[i] = ("p", i)
    else:
        for i, a in enumerate(args):
            env[i + 1] = a

    def place(p):
        t = env.get(p["l"], ("local", p["l"]))
        for e in p["p"]:
            if e == "*":
                continue
            if e.startswith("@"):
                t = ("downcast", e[1:], t)
                continue
            if e.startswith("."):
                try:
                    idx = int(e[1:])
                except ValueError:
                    t = ("proj", e, t)
                    continue
                if t[0] == "downcast" and t[1] == "Continue" and idx == 0 and t[2][0] == "call" and t[2][1].endswith("Try>::branch"):
                    t = ("try", t[2][2][0])
                    continue
                if t[0] == "adt" and idx < len(t[3]):
                    t = t[3][idx]
                elif t[0] == "tuple" and idx < len(t[1]):
                    t = t[1][idx]
                else:
                    t = ("field", _field(prog, body, p["l"], idx) if len(p["p"]) <= 2 else str(idx), t)
            else:
                t = ("proj", e, t)
        return t

    def operand(op):
        p = op_place(op)
        if p is not None:
            return place(p)
        c = op_const(op)
        if c is None:
            return ("?",)
        if "fn" in c:
            return ("fn", c.get("resolved") or c["fn"])
        for k in ("str", "int", "bool"):
            if k in c:
                return ("const", str(c[k]))
        return ("const", c.get("ty", "?"))

    cur = 0
    seen = set()
    while True:
        if cur in seen:
            return None
        seen.add(cur)
        blk = body.blocks[cur]
        for s in blk["stmts"]:
            if s["k"] != "Assign":
                continue
            rv = s["rv"]
            k = rv["k"]
            if s["place"]["p"]:
                # write through a projection / reference
                if effects is not None:
                    val = operand(rv["ops"][0]) if k == "Use" else ("rv", k)
                    effects.append(("store", place(s["place"]), val))
                continue
            if k == "Use":
                t = operand(rv["ops"][0])
            elif k in ("Ref", "RawPtr", "CopyForDeref"):
                t = place(rv["place"])
            elif k == "Cast":
                t = operand(rv["ops"][0])
            elif k == "Aggregate":
                if rv.get("agg") == "Adt":
                    t = ("adt", rv["adt"].split("::")[-1], rv.get("variant"), tuple(operand(o) for o in rv["ops"]))
                elif rv.get("agg") == "Tuple":
                    t = ("tuple", tuple(operand(o) for o in rv["ops"]))
                elif rv.get("agg") == "Closure":
                    t = ("closure", rv["def"].split("::")[-1], tuple(operand(o) for o in rv["ops"]))
                else:
                    t = ("agg", rv.get("agg"), tuple(operand(o) for o in rv["ops"]))
            elif k in ("BinaryOp", "UnaryOp"):
                t = ("op", rv.get("op"), tuple(operand(o) for o in rv["ops"]))
            elif k == "Discriminant":
                t = ("discr", place(rv["place"]))
            else:
                t = ("rv", k)
            env[s["place"]["l"]] = t
        term = blk["term"]
        k = term["k"]
        if k == "Return":
            ret = env.get(0, ("unit",))
            if effects is not None:
                rs = repr(ret)
                for c in used_calls:
                    if c[1].endswith("Try>::branch"):
                        continue
                    if repr(c) not in rs and not any(repr(c) in repr(o) for o in used_calls if o is not c) and not any(repr(c) in repr(e) for e in effects):
                        effects.append(c)
            return ret
        if k == "Goto":
            cur = term["target"]
        elif k in ("Drop", "Assert"):
            cur = term["target"]
        elif k == "Call":
            f, r = callee_of(term)
            name = r or f or "<indirect>"
            a = tuple(operand(x) for x in term["args"])
            t = None
            cb = prog.bodies.get(name)
            if cb is not None and depth > 0 and cb is not body and not (stop and _re.search(stop, name)):
                t = summary(prog, cb, depth - 1, list(a), stop, effects)
            if t is None:
                t = ("call", name, a)
                used_calls.append(t)
            if term["dest"]["p"]:
                env[term["dest"]["l"]] = ("mut", term["dest"]["l"])
            else:
                env[term["dest"]["l"]] = t
            if term.get("target") is None:
                return None
            cur = term["target"]
        elif k == "SwitchInt" and "operator `?`" in (term.get("macro") or ""):
            nxt = [b for v, b in term["targets"] if v == "0"]
            if not nxt:
                return None
            cur = nxt[0]
        else:
            return None


def fmt(t, short=True):
    k = t[0]
    if k == "p":
        return "p%d" % t[1]
    if k == "field":
        return "%s.%s" % (fmt(t[2], short), t[1])
    if k == "proj":
        return "%s%s" % (fmt(t[2], short), t[1])
    if k == "call":
        n = t[1]
        if short:
            n = "::".join(n.replace("<", "").replace(">", "").split("::")[-2:]) if "::" in n else n
        return "%s(%s)" % (n, ", ".join(fmt(a, short) for a in t[2]))
    if k == "adt":
        return "%s#%s(%s)" % (t[1], t[2], ", ".join(fmt(a, short) for a in t[3]))
    if k == "tuple":
        return "(%s)" % ", ".join(fmt(a, short) for a in t[1])
    if k == "const":
        return repr(t[1])
    if k == "fn":
        return "fn:" + t[1].split("::")[-1]
    if k == "closure":
        return "closure:%s(%s)" % (t[1], ", ".join(fmt(a, short) for a in t[2]))
    if k == "op":
        return "%s(%s)" % (t[1], ", ".join(fmt(a, short) for a in t[2]))
    if k == "discr":
        return "discr(%s)" % fmt(t[1], short)
    if k == "try":
        return "%s?" % fmt(t[1], short)
    if k == "downcast":
        return "(%s as %s)" % (fmt(t[2], short), t[1])
    if k == "store":
        return "%s := %s" % (fmt(t[1], short), fmt(t[2], short))
    return "<%s>" % "/".join(str(x) for x in t)
