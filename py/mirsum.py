"""Return-value summaries of straight-line MIR bodies.

For a function without branches the value it returns is an expression over its parameters: `p1.0`,
`Literal::into_str(p1.0)`, `ScopedLocale { locale: <L as FromStr>::from_str(p1)?, .. }` ... The summary is computed
from MIR dataflow, so it is the same for `self.0` and `self.inner()`, method and path call syntax, any local names,
and any way of splitting the expression over `let`s. Calls to local straight-line functions are inlined (depth 3).
References, dereferences, moves/copies and pointer-preserving casts are erased (value level)."""
from mirlib import callee_of, op_const, op_place


def _field(prog, body, base_local, idx, variant=None):
    import re
    ty = re.sub(r"^&(mut )?", "", body.local_ty(base_local))
    ty = re.sub(r"<.*$", "", ty)
    adt = prog.adts.get(ty)
    try:
        return adt["variants"][variant or 0]["fields"][idx]["name"]
    except Exception:
        return str(idx)


def summary(prog, body, depth=3, args=None, stop=None, effects=None):
    """term (nested tuples) for the return value, or None when the body branches / loops. `stop`: regex of callees
    that are not inlined. `effects`: list that receives ("store", place, value) / ("call", ..) terms of statements
    whose result is not part of the return value (writes through references, calls evaluated for their effect)."""
    import re as _re
    env = {}
    used_calls = []
    if args is None:
        for i in range(1, body.arg_count + 1):
            env[i] = ("p", i)
    else:
        for i, a in enumerate(args):
            env[i + 1] = a

    def place(p):
        t = env.get(p["l"], ("local", p["l"]))
        for e in p["p"]:
            if e == "*":
                continue
            if e.startswith("@"):
                t = ("downcast", e[1:], t)
                continue
            if e.startswith("."):
                try:
                    idx = int(e[1:])
                except ValueError:
                    t = ("proj", e, t)
                    continue
                if t[0] == "downcast" and t[1] == "Continue" and idx == 0 and t[2][0] == "call" and t[2][1].endswith("Try>::branch"):
                    t = ("try", t[2][2][0])
                    continue
                if t[0] == "adt" and idx < len(t[3]):
                    t = t[3][idx]
                elif t[0] == "tuple" and idx < len(t[1]):
                    t = t[1][idx]
                else:
                    t = ("field", _field(prog, body, p["l"], idx) if len(p["p"]) <= 2 else str(idx), t)
            else:
                t = ("proj", e, t)
        return t

    def operand(op):
        p = op_place(op)
        if p is not None:
            return place(p)
        c = op_const(op)
        if c is None:
            return ("?",)
        if "fn" in c:
            return ("fn", c.get("resolved") or c["fn"])
        for k in ("str", "int", "bool"):
            if k in c:
                return ("const", str(c[k]))
        return ("const", c.get("ty", "?"))

    cur = 0
    seen = set()
    while True:
        if cur in seen:
            return None
        seen.add(cur)
        blk = body.blocks[cur]
        for s in blk["stmts"]:
            if s["k"] != "Assign":
                continue
            rv = s["rv"]
            k = rv["k"]
            if s["place"]["p"]:
                # write through a projection / reference
                if effects is not None:
                    val = operand(rv["ops"][0]) if k == "Use" else ("rv", k)
                    effects.append(("store", place(s["place"]), val))
                continue
            if k == "Use":
                t = operand(rv["ops"][0])
            elif k in ("Ref", "RawPtr", "CopyForDeref"):
                t = place(rv["place"])
            elif k == "Cast":
                t = operand(rv["ops"][0])
            elif k == "Aggregate":
                if rv.get("agg") == "Adt":
                    t = ("adt", rv["adt"].split("::")[-1], rv.get("variant"), tuple(operand(o) for o in rv["ops"]))
                elif rv.get("agg") == "Tuple":
                    t = ("tuple", tuple(operand(o) for o in rv["ops"]))
                elif rv.get("agg") == "Closure":
                    t = ("closure", rv["def"].split("::")[-1], tuple(operand(o) for o in rv["ops"]))
                else:
                    t = ("agg", rv.get("agg"), tuple(operand(o) for o in rv["ops"]))
            elif k in ("BinaryOp", "UnaryOp"):
                t = ("op", rv.get("op"), tuple(operand(o) for o in rv["ops"]))
            elif k == "Discriminant":
                t = ("discr", place(rv["place"]))
            else:
                t = ("rv", k)
            env[s["place"]["l"]] = t
        term = blk["term"]
        k = term["k"]
        if k == "Return":
            ret = env.get(0, ("unit",))
            if effects is not None:
                rs = repr(ret)
                for c in used_calls:
                    if c[1].endswith("Try>::branch"):
                        continue
                    if repr(c) not in rs and not any(repr(c) in repr(o) for o in used_calls if o is not c) and not any(repr(c) in repr(e) for e in effects):
                        effects.append(c)
            return ret
        if k == "Goto":
            cur = term["target"]
        elif k in ("Drop", "Assert"):
            cur = term["target"]
        elif k == "Call":
            f, r = callee_of(term)
            name = r or f or "<indirect>"
            a = tuple(operand(x) for x in term["args"])
            t = None
            cb = prog.bodies.get(name)
            if cb is not None and depth > 0 and cb is not body and not (stop and _re.search(stop, name)):
                t = summary(prog, cb, depth - 1, list(a), stop, effects)
            if t is None and _re.search(r"result::Result::<.*>::map$", name) and len(a) == 2 and a[1][0] == "fn":
                # `x.map(f)` is `Ok(f(x?))`
                fb = prog.bodies.get(a[1][1])
                inner = summary(prog, fb, depth - 1, [("try", a[0])], stop, effects) if fb is not None and depth > 0 else None
                if inner is None:
                    inner = ("call", a[1][1], (("try", a[0]),))
                t = ("adt", "Result", "Ok", (inner,))
            if t is None:
                t = ("call", name, a)
                used_calls.append(t)
            if term["dest"]["p"]:
                env[term["dest"]["l"]] = ("mut", term["dest"]["l"])
            else:
                env[term["dest"]["l"]] = t
            if term.get("target") is None:
                return None
            cur = term["target"]
        elif k == "SwitchInt" and "operator `?`" in (term.get("macro") or ""):
            nxt = [b for v, b in term["targets"] if v == "0"]
            if not nxt:
                return None
            cur = nxt[0]
        else:
            return None


def inline_closures(prog, body, term, depth=3):
    """replace ("closure", name, captures) by ("lambda", return term, effects) computed from the closure's own body with
    its captured variables substituted, so the result does not depend on the order in which variables are captured nor
    on the closure's numbering; the closure's own parameters are ("carg", i)"""
    if not isinstance(term, tuple):
        return term
    if term and term[0] == "closure" and depth > 0:
        caps = tuple(inline_closures(prog, body, c, depth) for c in term[2])
        cb = prog.bodies.get(body.name + "::" + term[1])
        if cb is not None:
            eff = []
            ret = summary(prog, cb, args=[("tuple", caps)] + [("carg", i) for i in range(2, cb.arg_count + 1)], effects=eff)
            if ret is not None:
                return ("lambda", inline_closures(prog, cb, ret, depth - 1), tuple(inline_closures(prog, cb, e, depth - 1) for e in eff))
        return ("closure", term[1], caps)
    return tuple(inline_closures(prog, body, x, depth) for x in term)


def _short(n):
    """`<T as Trait<X>>::m` -> `Trait::m`; `a::b::Type::<T>::m` -> `Type::m`"""
    import re as _re
    prev = None
    while prev != n:
        prev = n
        n = _re.sub(r"::<[^<>]*>", "", n)
    m = _re.match(r"^<(.*) as (.*)>::(\w+)$", n)
    if m:
        tr = m.group(2)
        prev = None
        while prev != tr:
            prev = tr
            tr = _re.sub(r"<[^<>]*>", "", tr)
        return tr.split("::")[-1] + "::" + m.group(3)
    prev = None
    while prev != n:
        prev = n
        n = _re.sub(r"<[^<>]*>", "", n)
    return "::".join(n.split("::")[-2:])


def fmt(t, short=True):
    k = t[0]
    if k == "p":
        return "p%d" % t[1]
    if k == "field":
        return "%s.%s" % (fmt(t[2], short), t[1])
    if k == "proj":
        return "%s%s" % (fmt(t[2], short), t[1])
    if k == "call":
        n = t[1]
        if short:
            n = _short(n)
        return "%s(%s)" % (n, ", ".join(fmt(a, short) for a in t[2]))
    if k == "adt":
        return "%s#%s(%s)" % (t[1], t[2], ", ".join(fmt(a, short) for a in t[3]))
    if k == "tuple":
        return "(%s)" % ", ".join(fmt(a, short) for a in t[1])
    if k == "const":
        return repr(t[1])
    if k == "fn":
        return "fn:" + t[1].split("::")[-1]
    if k == "closure":
        return "closure:%s(%s)" % (t[1], ", ".join(fmt(a, short) for a in t[2]))
    if k == "lambda":
        return "|..|{%s}" % "; ".join([fmt(e, short) for e in t[2]] + [fmt(t[1], short)])
    if k == "carg":
        return "a%d" % t[1]
    if k == "cap":
        return t[1]
    if k == "op":
        return "%s(%s)" % (t[1], ", ".join(fmt(a, short) for a in t[2]))
    if k == "discr":
        return "discr(%s)" % fmt(t[1], short)
    if k == "try":
        return "%s?" % fmt(t[1], short)
    if k == "downcast":
        return "(%s as %s)" % (fmt(t[2], short), t[1])
    if k == "store":
        return "%s := %s" % (fmt(t[1], short), fmt(t[2], short))
    if k == "is":
        return "%s is %s" % (fmt(t[1], short), t[2])
    if k == "not":
        return "%s is not %s" % (fmt(t[1], short), t[2])
    if k in ("eq", "ne"):
        return "%s %s %s" % (fmt(t[1], short), "==" if k == "eq" else "!=", t[2])
    if k == "diverges":
        return "!"
    return "<%s>" % "/".join(str(x) for x in t)


# ---------------------------------------------------------------------------------------------- path-sensitive traces

def paths(prog, body, depth=2, stop=None, max_paths=24):
    """for a loop-free body: [(conditions, trace, return term)] for every path. conditions: ("is", term, variant) /
    ("not", ..) / ("true"|"false", term); trace: the calls that are not inlined, in execution order, each
    ("call", name, args) with earlier call results referenced structurally. None when the body loops or has too many paths.
    Assert terminators (overflow / bounds checks) are followed on their success edge."""
    import re as _re
    out = []

    def variant_name(ty, idx):
        t = _re.sub(r"^&(mut )?", "", ty)
        t = _re.sub(r"<.*$", "", t)
        adt = prog.adts.get(t)
        try:
            return adt["variants"][int(idx)]["name"]
        except Exception:
            if t.endswith("option::Option"):
                return {"0": "None", "1": "Some"}.get(str(idx), str(idx))
            if t.endswith("result::Result"):
                return {"0": "Ok", "1": "Err"}.get(str(idx), str(idx))
            return str(idx)

    def run(cur, env, conds, trace, seen):
        while True:
            if len(out) > max_paths:
                return False
            if cur in seen:
                return False
            seen = seen | {cur}
            blk = body.blocks[cur]

            def place(p):
                t = env.get(p["l"], ("local", p["l"]))
                for e in p["p"]:
                    if e == "*":
                        continue
                    if e.startswith("@"):
                        t = ("downcast", e[1:], t)
                        continue
                    if e.startswith("."):
                        try:
                            idx = int(e[1:])
                        except ValueError:
                            t = ("proj", e, t)
                            continue
                        if t[0] == "downcast" and t[1] == "Continue" and idx == 0 and t[2][0] == "call" and t[2][1].endswith("Try>::branch"):
                            t = ("try", t[2][2][0])
                        elif t[0] == "adt" and idx < len(t[3]):
                            t = t[3][idx]
                        elif t[0] == "tuple" and idx < len(t[1]):
                            t = t[1][idx]
                        elif t[0] == "downcast":
                            t = ("field", str(idx), t)
                        else:
                            t = ("field", _field(prog, body, p["l"], idx) if len(p["p"]) <= 2 else str(idx), t)
                    else:
                        t = ("proj", e, t)
                return t

            def operand(op):
                p = op_place(op)
                if p is not None:
                    return place(p)
                c = op_const(op)
                if c is None:
                    return ("?",)
                if "fn" in c:
                    return ("fn", c.get("resolved") or c["fn"])
                for k in ("str", "int", "bool"):
                    if k in c:
                        return ("const", str(c[k]))
                return ("const", c.get("ty", "?"))
            for st in blk["stmts"]:
                if st["k"] != "Assign":
                    continue
                rv = st["rv"]
                k = rv["k"]
                if st["place"]["p"]:
                    val = operand(rv["ops"][0]) if k == "Use" else ("rv", k)
                    trace = trace + [("store", place(st["place"]), val)]
                    continue
                if k == "Use":
                    t = operand(rv["ops"][0])
                elif k in ("Ref", "RawPtr", "CopyForDeref"):
                    t = place(rv["place"])
                elif k == "Cast":
                    t = operand(rv["ops"][0])
                elif k == "Aggregate":
                    if rv.get("agg") == "Adt":
                        t = ("adt", rv["adt"].split("::")[-1], rv.get("variant"), tuple(operand(o) for o in rv["ops"]))
                    elif rv.get("agg") == "Tuple":
                        t = ("tuple", tuple(operand(o) for o in rv["ops"]))
                    elif rv.get("agg") == "Closure":
                        t = ("closure", rv["def"].split("::")[-1], tuple(operand(o) for o in rv["ops"]))
                    else:
                        t = ("agg", rv.get("agg"), tuple(operand(o) for o in rv["ops"]))
                elif k in ("BinaryOp", "UnaryOp"):
                    t = ("op", rv.get("op"), tuple(operand(o) for o in rv["ops"]))
                elif k == "Discriminant":
                    t = ("discr", place(rv["place"]), body.local_ty(rv["place"]["l"]) if not [e for e in rv["place"]["p"] if e != "*"] else "")
                else:
                    t = ("rv", k)
                env = dict(env)
                env[st["place"]["l"]] = t
            term = blk["term"]
            k = term["k"]
            if k == "Return":
                out.append((tuple(conds), list(trace), env.get(0, ("unit",))))
                return True
            if k in ("Goto", "Drop", "Assert"):
                cur = term["target"]
                continue
            if k == "Call":
                f, r = callee_of(term)
                name = r or f or "<indirect>"
                a = tuple(operand(x) for x in term["args"])
                t = None
                cb = prog.bodies.get(name)
                if cb is not None and depth > 0 and cb is not body and not (stop and _re.search(stop, name)):
                    t = summary(prog, cb, depth - 1, list(a), stop)
                if t is None:
                    t = ("call", name, a)
                    if not name.endswith("Try>::branch"):
                        trace = trace + [t]
                env = dict(env)
                env[term["dest"]["l"]] = t
                if term.get("target") is None:
                    out.append((tuple(conds), list(trace), ("diverges",)))
                    return True
                cur = term["target"]
                continue
            if k == "SwitchInt":
                d = operand(term["discr"])
                if "operator `?`" in (term.get("macro") or ""):
                    nxt = [b for v, b in term["targets"] if v == "0"]
                    if nxt:
                        cur = nxt[0]
                        continue
                taken = []
                for v, b in term["targets"]:
                    if d[0] == "discr":
                        c = ("is", d[1], variant_name(d[2], v), d[2])
                    elif d[0] == "const":
                        c = None
                    else:
                        c = ("eq", d, v)
                    taken.append(c)
                    if body.blocks[b]["term"]["k"] == "Unreachable":
                        continue
                    if not run(b, env, conds + ([c] if c else []), trace, seen):
                        return False
                ob = term["otherwise"]
                if body.blocks[ob]["term"]["k"] != "Unreachable":
                    neg = [("not",) + tuple(c[1:]) if c and c[0] == "is" else (("ne",) + tuple(c[1:]) if c else None) for c in taken]
                    if not run(ob, env, conds + [n for n in neg if n], trace, seen):
                        return False
                return True
            if k == "Unreachable":
                return True
            return False

    env0 = {i: ("p", i) for i in range(1, body.arg_count + 1)}
    ok = run(0, env0, [], [], frozenset())
    return out if ok else None


def _variants(prog, ty):
    import re as _re
    t = _re.sub(r"^&(mut )?", "", ty or "")
    t = _re.sub(r"<.*$", "", t)
    if t.endswith("option::Option"):
        return ["None", "Some"]
    if t.endswith("result::Result"):
        return ["Ok", "Err"]
    adt = prog.adts.get(t) if prog is not None else None
    if adt and len(adt.get("variants", [])) > 1:
        return [v["name"] for v in adt["variants"]]
    return None


def canon_conds(prog, ps):
    """paths that only differ by which variant of one scrutinee was taken and do the same thing are one path
    `x is not {the variants handled differently}`; `x is not V` on a two-variant type is `x is W`"""
    out = []
    groups = {}
    for conds, trace, ret in ps:
        key = (repr(trace), repr(ret), repr(conds[:-1]))
        last = conds[-1] if conds else None
        if last is not None and last[0] in ("is", "not") and len(last) > 3:
            groups.setdefault((key, repr(last[1])), []).append((conds, trace, ret))
        else:
            out.append((conds, trace, ret))
    for (key, _t), members in groups.items():
        conds, trace, ret = members[0]
        last = conds[-1]
        vs = _variants(prog, last[3])
        taken = set()
        for c2, _tr, _r in members:
            l2 = c2[-1]
            if l2[0] == "is":
                taken.add(l2[2])
            elif vs:
                taken |= set(vs) - set(l2[2].split("|"))
            else:
                taken.add("!" + l2[2])
        if vs and not any(x.startswith("!") for x in taken):
            rest = [v for v in vs if v not in taken]
            if len(taken) == 1:
                nc = ("is", last[1], next(iter(taken)))
            else:
                nc = ("not", last[1], "|".join(sorted(rest)))
        elif len(members) == 1:
            nc = last[:3]
        else:
            nc = ("is", last[1], "|".join(sorted(taken)))
        out.append((tuple(conds[:-1]) + (nc,), trace, ret))
    return out


def fmt_paths(ps, prog=None):
    """canonical multi-line text of paths(): one line per path, sorted"""
    lines = []
    ps = canon_conds(prog, ps)
    for conds, trace, ret in ps:
        c = " & ".join(fmt(x) for x in conds) or "always"
        t = "; ".join(fmt(x) for x in trace)
        lines.append("[%s] %s%s=> %s" % (c, t, " " if t else "", fmt(ret)))
    return sorted(lines)
