"""Model of the MIR facts: bodies, CFG, dominators, call graph, simple def-use."""
import re
from collections import defaultdict, deque


def place_str(p):
    return "_%d%s" % (p["l"], "".join(p["p"]))


def op_place(op):
    if op is None:
        return None
    return op.get("copy") or op.get("move")


def op_const(op):
    return op.get("const") if op else None


class Body:
    def __init__(self, d, crate):
        self.d = d
        self.crate = crate
        self.name = d["name"]
        self.kind = d["kind"]
        self.file = d["file"]
        self.line = d["line"]
        self.blocks = d["blocks"]
        self.locals = d["locals"]
        self.arg_count = d["arg_count"]
        self.root = d.get("root")
        self.parent = d.get("parent")
        self.impl_trait = d.get("impl_trait")
        self.impl_self = d.get("impl_self")
        self.trait_item = d.get("trait_item")
        self.is_pub = d.get("pub", False)
        self._dom = None
        self._pdom = None
        self._defs = None

    def __repr__(self):
        return "<Body %s>" % self.name

    @property
    def short(self):
        return self.name

    # ---- CFG -------------------------------------------------------------
    def succ(self, i, unwind=False):
        t = self.blocks[i]["term"]
        k = t["k"]
        out = []
        if k == "Goto":
            out = [t["target"]]
        elif k == "SwitchInt":
            out = [b for _, b in t["targets"]] + [t["otherwise"]]
        elif k in ("Call", "Drop", "Assert"):
            if t.get("target") is not None:
                out = [t["target"]]
            if unwind and t.get("unwind") is not None:
                out.append(t["unwind"])
        elif k == "Other":
            out = list(t.get("succ", []))
        return out

    def preds(self):
        p = defaultdict(list)
        for i in range(len(self.blocks)):
            for s in self.succ(i):
                p[s].append(i)
        return p

    def reachable_blocks(self):
        seen = {0}
        dq = deque([0])
        while dq:
            i = dq.popleft()
            for s in self.succ(i):
                if s not in seen:
                    seen.add(s)
                    dq.append(s)
        return seen

    def dominators(self):
        """dom[b] = set of blocks dominating b (normal edges only)."""
        if self._dom is not None:
            return self._dom
        reach = self.reachable_blocks()
        nodes = sorted(reach)
        preds = self.preds()
        full = set(nodes)
        dom = {n: set(full) for n in nodes}
        dom[0] = {0}
        changed = True
        while changed:
            changed = False
            for n in nodes:
                if n == 0:
                    continue
                ps = [p for p in preds[n] if p in reach]
                if not ps:
                    new = {n}
                else:
                    new = set.intersection(*(dom[p] for p in ps)) | {n}
                if new != dom[n]:
                    dom[n] = new
                    changed = True
        self._dom = dom
        return dom

    def dominates(self, a, b):
        dom = self.dominators()
        return b in dom and a in dom[b]

    def return_blocks(self):
        return [i for i in self.reachable_blocks() if self.blocks[i]["term"]["k"] == "Return"]

    def back_edges(self):
        dom = self.dominators()
        out = []
        for i in self.reachable_blocks():
            for s in self.succ(i):
                if s in dom.get(i, ()):
                    out.append((i, s))
        return out

    def paths_avoiding(self, start, goals, avoid):
        """is there a path from start to any block of `goals` that never enters a block of `avoid`?"""
        goals = set(goals)
        avoid = set(avoid)
        if start in avoid:
            return False
        seen = {start}
        dq = deque([start])
        while dq:
            i = dq.popleft()
            if i in goals:
                return True
            for s in self.succ(i):
                if s not in seen and s not in avoid:
                    seen.add(s)
                    dq.append(s)
        return False

    # ---- statements ------------------------------------------------------
    def terms(self, kind=None, cleanup=False):
        for i, b in enumerate(self.blocks):
            if b["cleanup"] and not cleanup:
                continue
            t = b["term"]
            if kind is None or t["k"] == kind:
                yield i, t

    def calls(self, cleanup=False):
        return self.terms("Call", cleanup)

    def stmts(self, cleanup=False):
        for i, b in enumerate(self.blocks):
            if b["cleanup"] and not cleanup:
                continue
            for j, s in enumerate(b["stmts"]):
                yield i, j, s

    def assigns(self, cleanup=False):
        for i, j, s in self.stmts(cleanup):
            if s["k"] == "Assign":
                yield i, j, s

    def aggregates(self, adt=None, variant=None):
        for i, j, s in self.assigns():
            rv = s["rv"]
            if rv["k"] == "Aggregate" and rv.get("agg") == "Adt":
                if adt is not None and not rv["adt"].endswith(adt):
                    continue
                if variant is not None and rv["variant"] != variant:
                    continue
                yield i, j, s

    def local_ty(self, l):
        return self.locals[l]["ty"]

    def local_name(self, l):
        return self.locals[l].get("name")

    def defs(self):
        """local -> list of (block, stmt index or 'term', rvalue-or-term) definitions (whole-local writes
        and writes through projections are both recorded)."""
        if self._defs is not None:
            return self._defs
        d = defaultdict(list)
        for i, j, s in self.assigns(cleanup=True):
            d[s["place"]["l"]].append((i, j, s))
        for i, t in self.terms("Call", cleanup=True):
            d[t["dest"]["l"]].append((i, "term", t))
        self._defs = d
        return d

    def const_strs(self):
        out = []
        for i, j, s in self.assigns(cleanup=True):
            for op in s["rv"].get("ops", []):
                c = op_const(op)
                if c and "str" in c:
                    out.append(c["str"])
        for i, t in self.calls(cleanup=True):
            for op in t["args"]:
                c = op_const(op)
                if c and "str" in c:
                    out.append(c["str"])
        return out


def callee_of(term):
    """(declared fn path, resolved fn path or None) of a Call terminator; (None, None) for indirect calls."""
    c = op_const(term["func"])
    if c and "fn" in c:
        return c["fn"], c.get("resolved")
    return None, None


def callee_name(term):
    f, r = callee_of(term)
    return r or f


class Program:
    def __init__(self, facts_list):
        # choose, per crate, the fact file with most features (cargo may compile a crate twice)
        by_crate = {}
        for f in facts_list:
            c = f["crate"]
            if c not in by_crate or len(f["features"]) > len(by_crate[c]["features"]):
                by_crate[c] = f
        self.crates = by_crate
        self.bodies = {}
        self.impls = []  # (crate, trait, self_ty, [(trait_item, impl_item)])
        self.adts = {}
        for c, f in by_crate.items():
            for b in f["bodies"]:
                body = Body(b, c)
                self.bodies[body.name] = body
            for im in f["impls"]:
                self.impls.append((c, im["trait"], im["self_ty"], im["items"]))
            self.adts.update(f["adts"])
        self.trait_impls = defaultdict(list)  # trait item path -> [impl item path]
        for c, tr, st, items in self.impls:
            for ti, ii in items:
                self.trait_impls[ti].append(ii)
        self._edges = None

    def features(self, crate):
        return self.crates[crate]["features"]

    def body(self, suffix, crate=None):
        """unique body whose name ends with `suffix` (on a path boundary)"""
        m = [b for n, b in self.bodies.items()
             if (n == suffix or n.endswith("::" + suffix)) and (crate is None or b.crate == crate)]
        if len(m) == 1:
            return m[0]
        if not m:
            return None
        raise KeyError("ambiguous body suffix %s: %s" % (suffix, [b.name for b in m]))

    def bodies_matching(self, regex, crate=None):
        r = re.compile(regex)
        return [b for n, b in sorted(self.bodies.items()) if r.search(n) and (crate is None or b.crate == crate)]

    def closures_of(self, body):
        pre = body.name + "::{closure"
        return [b for n, b in sorted(self.bodies.items()) if n.startswith(pre)]

    def family(self, body):
        """the body and all closures nested in it"""
        return [body] + self.closures_of(body)

    # ---- call graph ------------------------------------------------------
    def edges(self):
        if self._edges is not None:
            return self._edges
        edges = defaultdict(set)
        for name, b in self.bodies.items():
            for i, t in b.calls(cleanup=True):
                f, r = callee_of(t)
                if f is None:
                    continue
                tgt = r or f
                edges[name].add(tgt)
                if (r is None or r == f) and f in self.trait_impls and f not in self.bodies:
                    # unresolved trait method: class-hierarchy approximation
                    for ii in self.trait_impls[f]:
                        edges[name].add(ii)
                # fn items / closures passed as arguments
                for a in t["args"]:
                    c = op_const(a)
                    if c and "fn" in c:
                        edges[name].add(c.get("resolved") or c["fn"])
                        if c["fn"] in self.trait_impls:
                            for ii in self.trait_impls[c["fn"]]:
                                edges[name].add(ii)
            for i, j, s in b.assigns(cleanup=True):
                rv = s["rv"]
                if rv["k"] == "Aggregate" and rv.get("agg") in ("Closure", "Coroutine"):
                    edges[name].add(rv["def"])
                for op in rv.get("ops", []):
                    c = op_const(op)
                    if c and "fn" in c:
                        edges[name].add(c.get("resolved") or c["fn"])
                        if c["fn"] in self.trait_impls:
                            for ii in self.trait_impls[c["fn"]]:
                                edges[name].add(ii)
        self._edges = edges
        return edges

    def reachable(self, roots):
        """names of local bodies reachable from roots, with a predecessor map for path reports"""
        edges = self.edges()
        seen = {}
        dq = deque()
        for r in roots:
            if r in self.bodies and r not in seen:
                seen[r] = None
                dq.append(r)
        while dq:
            n = dq.popleft()
            for m in sorted(edges.get(n, ())):
                if m in self.bodies and m not in seen:
                    seen[m] = n
                    dq.append(m)
        return seen

    def path_to(self, seen, name):
        p = []
        while name is not None:
            p.append(name)
            name = seen.get(name)
        return list(reversed(p))

    def callers_of(self, target_regex):
        r = re.compile(target_regex)
        out = []
        for name, b in sorted(self.bodies.items()):
            for i, t in b.calls(cleanup=True):
                cn = callee_name(t)
                f, _ = callee_of(t)
                if (cn and r.search(cn)) or (f and r.search(f)):
                    out.append((b, i, t))
        return out

    def sccs(self, names):
        """Tarjan SCCs of the call graph restricted to `names`; returns list of lists (size>1 or self-loop)."""
        edges = self.edges()
        names = set(names)
        index = {}
        low = {}
        stack = []
        on = set()
        out = []
        counter = [0]
        import sys
        sys.setrecursionlimit(10000)

        def strong(v):
            index[v] = low[v] = counter[0]
            counter[0] += 1
            stack.append(v)
            on.add(v)
            for w in sorted(edges.get(v, ())):
                if w not in names:
                    continue
                if w not in index:
                    strong(w)
                    low[v] = min(low[v], low[w])
                elif w in on:
                    low[v] = min(low[v], index[w])
            if low[v] == index[v]:
                comp = []
                while True:
                    w = stack.pop()
                    on.discard(w)
                    comp.append(w)
                    if w == v:
                        break
                if len(comp) > 1 or v in edges.get(v, ()):
                    out.append(sorted(comp))
        for v in sorted(names):
            if v not in index:
                strong(v)
        return out


# ---- intra-procedural value provenance ----------------------------------------

def backward_slice(body, start_local, max_steps=400):
    """Flow-insensitive backward slice: set of locals that may flow into `start_local`, with the list of
    defining statements/terminators encountered. Returns (locals, defs)."""
    defs = body.defs()
    seen = set()
    found = []
    dq = deque([start_local])
    steps = 0
    while dq and steps < max_steps:
        l = dq.popleft()
        if l in seen:
            continue
        seen.add(l)
        for (i, j, s) in defs.get(l, []):
            steps += 1
            found.append((i, j, s))
            if j == "term":
                for a in s["args"]:
                    p = op_place(a)
                    if p:
                        dq.append(p["l"])
            else:
                rv = s["rv"]
                for op in rv.get("ops", []):
                    p = op_place(op)
                    if p:
                        dq.append(p["l"])
                if "place" in rv:
                    dq.append(rv["place"]["l"])
    return seen, found
