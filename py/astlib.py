"""Helpers over the JSON syntax tree produced by tools/astfacts."""
import re


def is_node(x):
    return isinstance(x, dict) and "k" in x


def children(node):
    for key, v in node.items():
        if key in ("tokens",):
            continue
        if isinstance(v, dict):
            if "k" in v:
                yield v
            else:
                for vv in v.values():
                    if is_node(vv):
                        yield vv
        elif isinstance(v, list):
            for x in v:
                if is_node(x):
                    yield x
                elif isinstance(x, dict):
                    for vv in x.values():
                        if is_node(vv):
                            yield vv
                        elif isinstance(vv, list):
                            for y in vv:
                                if is_node(y):
                                    yield y


def walk(node):
    """pre-order walk over all syntax nodes below (and including) node"""
    stack = [node]
    while stack:
        n = stack.pop()
        if is_node(n):
            yield n
            cs = list(children(n))
            stack.extend(reversed(cs))
        elif isinstance(n, list):
            stack.extend(reversed(n))


def find_all(node, k=None, pred=None):
    for n in walk(node):
        if k is not None and n["k"] != k and not (isinstance(k, (tuple, set, list)) and n["k"] in k):
            continue
        if pred is not None and not pred(n):
            continue
        yield n


def find_first(node, k=None, pred=None):
    for n in find_all(node, k, pred):
        return n
    return None


# ---- canonical text -----------------------------------------------------------

def show_pat(p):
    k = p["k"]
    if k == "PIdent":
        s = ("ref " if p.get("by_ref") else "") + ("mut " if p.get("mut") else "") + p["name"]
        if "sub" in p:
            s += " @ " + show_pat(p["sub"])
        return s
    if k == "PTuple":
        return "(" + ", ".join(show_pat(e) for e in p["elems"]) + ")"
    if k == "PTupleStruct":
        return p["path"] + "(" + ", ".join(show_pat(e) for e in p["elems"]) + ")"
    if k == "PStruct":
        fs = ", ".join(f["member"] + ": " + show_pat(f["pat"]) for f in p["fields"])
        return p["path"] + " { " + fs + (", .." if p.get("rest") else "") + " }"
    if k == "POr":
        return " | ".join(show_pat(c) for c in p["cases"])
    if k == "PWild":
        return "_"
    if k == "PRest":
        return ".."
    if k in ("PLit", "PRange", "PConst", "POther"):
        return norm(p["text"])
    if k == "PRef":
        return "&" + show_pat(p["pat"])
    if k == "PSlice":
        return "[" + ", ".join(show_pat(e) for e in p["elems"]) + "]"
    if k == "PPath":
        return p["path"]
    if k == "PType":
        return show_pat(p["pat"]) + ": " + norm(p["ty"])
    if k == "Macro":
        return p["path"] + "!(" + norm(p.get("text", "")) + ")"
    return show(p)


def norm(s):
    """normalise a token string: remove whitespace that proc_macro2 inserts"""
    s = re.sub(r"\s+", " ", s.strip())
    s = re.sub(r"\s*(::|\.|,|;|\(|\)|\[|\]|<|>|&|\*|!|\?|:)\s*", r"\1", s)
    s = s.replace(",", ", ")
    return s.strip()


def show(n):
    if n is None:
        return ""
    if not is_node(n):
        return str(n)
    k = n["k"]
    if k.startswith("P") and k != "Path":
        return show_pat(n)
    if k == "Path":
        g = n.get("generics")
        base = n["path"]
        if n.get("qself"):
            segs = base.split("::")
            if len(segs) > 1:
                base = "<%s as %s>::%s" % (norm(n["qself"]), "::".join(segs[:-1]), segs[-1])
            else:
                base = "<%s>::%s" % (norm(n["qself"]), segs[-1])
        return base + ("::<" + ", ".join(norm(x) for x in g) + ">" if g else "")
    if k == "Lit":
        return n["text"]
    if k == "MethodCall":
        tf = norm(n["turbofish"]) if n.get("turbofish") else ""
        rc = show(n["receiver"])
        if is_node(n["receiver"]) and n["receiver"]["k"] in ("Range", "Ref", "Unary", "Closure", "If", "Match"):
            rc = "(" + rc + ")"
        return "%s.%s%s(%s)" % (rc, n["method"], tf, ", ".join(show(a) for a in n["args"]))
    if k == "Call":
        return "%s(%s)" % (show(n["func"]), ", ".join(show(a) for a in n["args"]))
    if k == "Field":
        return "%s.%s" % (show(n["base"]), n["member"])
    if k == "Ref":
        return "&" + ("mut " if n.get("mut") else "") + show(n["expr"])
    if k == "Unary":
        return n["op"] + show(n["expr"])
    if k == "Binary":
        return "(%s %s %s)" % (show(n["left"]), n["op"], show(n["right"]))
    if k == "Assign":
        return "%s = %s" % (show(n["left"]), show(n["right"]))
    if k == "Index":
        return "%s[%s]" % (show(n["expr"]), show(n["index"]))
    if k == "Range":
        return "%s..%s%s" % (show(n["start"]), "=" if n.get("inclusive") else "", show(n["end"]))
    if k == "Try":
        return show(n["expr"]) + "?"
    if k == "Await":
        return show(n["expr"]) + ".await"
    if k == "Cast":
        return "(%s as %s)" % (show(n["expr"]), norm(n["ty"]))
    if k == "Tuple":
        return "(" + ", ".join(show(e) for e in n["elems"]) + ")"
    if k == "Array":
        return "[" + ", ".join(show(e) for e in n["elems"]) + "]"
    if k == "Struct":
        fs = ", ".join(f["member"] + ": " + show(f["expr"]) for f in n["fields"])
        return n["path"] + " { " + fs + (", .." + show(n["rest"]) if n.get("rest") else "") + " }"
    if k == "Closure":
        return ("move " if n.get("move") else "") + "|" + ", ".join(show_pat(p) for p in n["inputs"]) + "| " + show(n["body"])
    if k == "Return":
        return "return " + show(n["expr"])
    if k == "Break":
        return "break " + show(n["expr"])
    if k == "Continue":
        return "continue"
    if k == "If":
        s = "if %s %s" % (show(n["cond"]), show(n["then"]))
        if n.get("else"):
            s += " else " + show(n["else"])
        return s
    if k == "LetExpr":
        return "let %s = %s" % (show_pat(n["pat"]), show(n["expr"]))
    if k == "Match":
        arms = "; ".join(
            show_pat(a["pat"]) + (" if " + show(a["guard"]) if a.get("guard") else "") + " => " + show(a["body"])
            for a in n["arms"])
        return "match %s { %s }" % (show(n["scrutinee"]), arms)
    if k == "Block":
        return "{ " + "; ".join(show(s) for s in n["stmts"]) + " }"
    if k == "Let":
        s = "let " + show_pat(n["pat"])
        if "init" in n:
            s += " = " + show(n["init"])
        if "else" in n:
            s += " else " + show(n["else"])
        return s
    if k == "ExprStmt":
        return show(n["expr"]) + (";" if n.get("semi") else "")
    if k == "ForLoop":
        return "for %s in %s %s" % (show_pat(n["pat"]), show(n["iter"]), show(n["body"]))
    if k == "While":
        return "while %s %s" % (show(n["cond"]), show(n["body"]))
    if k == "Loop":
        return "loop " + show(n["body"])
    if k in ("Macro", "ItemMacro"):
        if "args" in n:
            return "%s!(%s)" % (n["path"], ", ".join(show(a) for a in n["args"]))
        return "%s!(%s)" % (n["path"], norm(n.get("text", "")))
    if k in ("Unsafe", "ConstBlock", "Async"):
        return k.lower() + " " + show(n["body"])
    if k == "Repeat":
        return "[%s; %s]" % (show(n["expr"]), show(n["len"]))
    if k == "Other":
        return norm(n["text"])
    if k == "Fn":
        return "fn " + n["name"]
    return "<" + k + ">"


class Shown(str):
    """text of a node that remembers the node (so that comparisons can fall back to canonical forms)"""
    def __new__(cls, s, node):
        o = str.__new__(cls, s)
        o.node = node
        return o


_show_raw = show


def show(n):  # noqa: F811
    s = _show_raw(n)
    return Shown(s, n) if is_node(n) else s


# ---- items ----------------------------------------------------------------------

class Fn:
    def __init__(self, node, file, impl_self=None, impl_trait=None, mods=(), cfgs=()):
        self.node = node
        self.file = file
        self.name = node["name"]
        self.impl_self = impl_self
        self.impl_trait = impl_trait
        self.mods = tuple(mods)
        self.body = node.get("body")
        self.line = node["line"]
        self.cfgs = tuple(cfgs) + tuple(a for a in node.get("attrs", []) if a.startswith("cfg"))

    @property
    def qual(self):
        q = "::".join(self.mods)
        if self.impl_self:
            t = self.impl_self
            if self.impl_trait:
                t = "<%s as %s>" % (self.impl_self, self.impl_trait)
            q = (q + "::" if q else "") + t
        return (q + "::" if q else "") + self.name

    @property
    def loc(self):
        return "%s:%d" % (self.file, self.line)

    def is_test(self):
        return any("test" in c for c in self.cfgs)

    def params(self):
        out = []
        for i in self.node["sig"]["inputs"]:
            p = i["pat"]
            if p.get("k") == "PIdent":
                out.append(p["name"])
            else:
                out.append(show_pat(p))
        return out

    def __repr__(self):
        return "<Fn %s @%s>" % (self.qual, self.loc)


class Ast:
    def __init__(self, facts):
        self.files = {f["path"]: f for f in facts["files"]}
        self.fns = []
        self.enums = {}
        self.structs = {}
        self.consts = {}
        self.item_macros = []
        self.impls = []
        self.traits = {}
        for path, f in self.files.items():
            self._index(f["items"], path, (), ())

    def _index(self, items, path, mods, cfgs):
        for it in items:
            k = it["k"]
            icfg = tuple(a for a in it.get("attrs", []) if isinstance(a, str) and a.startswith("cfg"))
            if k == "Fn":
                self.fns.append(Fn(it, path, mods=mods, cfgs=cfgs))
                self._nested(it, path, mods + (it["name"],), cfgs)
            elif k == "Impl":
                st = norm(it["self_ty"])
                tr = norm(it["trait"]) if it.get("trait") else None
                self.impls.append((path, mods, it))
                for ii in it["items"]:
                    if ii["k"] == "Fn":
                        self.fns.append(Fn(ii, path, impl_self=st, impl_trait=tr, mods=mods, cfgs=cfgs + icfg))
                        self._nested(ii, path, mods + (st, ii["name"]), cfgs + icfg)
                    elif ii["k"] == "Const":
                        self.consts[(path, st, ii["name"])] = ii
                    elif ii["k"] == "Macro":
                        self.item_macros.append((path, mods + (st,), ii))
            elif k == "Trait":
                self.traits[(path, it["name"])] = it
                for ii in it["items"]:
                    if ii["k"] == "Fn" and ii.get("body"):
                        self.fns.append(Fn(ii, path, impl_self=it["name"], impl_trait=None, mods=mods, cfgs=cfgs + icfg))
            elif k == "EnumDef":
                self.enums[(path, it["name"])] = it
            elif k == "StructDef":
                self.structs[(path, it["name"])] = it
            elif k in ("Const", "Static"):
                self.consts[(path, None, it["name"])] = it
            elif k == "Mod":
                if "items" in it:
                    self._index(it["items"], path, mods + (it["name"],), cfgs + icfg)
            elif k == "ItemMacro":
                self.item_macros.append((path, mods, it))

    def _nested(self, fn_node, path, mods, cfgs):
        """fn items declared inside a function body"""
        body = fn_node.get("body")
        if not body:
            return
        for n in walk(body):
            if n is not fn_node and n["k"] == "Fn" and n.get("body") is not None:
                self.fns.append(Fn(n, path, mods=mods, cfgs=cfgs))

    def fn(self, file_suffix, name, impl_self=None, impl_trait=None, allow_test=False):
        """the unique fn matching; None if absent. impl_self/impl_trait matched by suffix/contains."""
        m = []
        for f in self.fns:
            if not f.file.endswith(file_suffix) or f.name != name:
                continue
            if f.is_test() and not allow_test:
                continue
            if impl_self is not None and (f.impl_self is None or not _ty_match(f.impl_self, impl_self)):
                continue
            if impl_trait is not None and (f.impl_trait is None or impl_trait not in f.impl_trait):
                continue
            m.append(f)
        if len(m) == 1:
            return m[0]
        if not m:
            return None
        # prefer free-standing / exact self match
        ex = [f for f in m if (f.impl_self or "") == (impl_self or "")]
        if len(ex) == 1:
            return ex[0]
        raise KeyError("ambiguous fn %s in %s: %s" % (name, file_suffix, m))

    def enclosing_fn(self, node):
        """the Fn object whose signature/body contains `node` (identity), or None"""
        if getattr(self, "_encl", None) is None:
            self._encl = {}
            for f in self.fns:
                for n in walk(f.node):
                    self._encl.setdefault(id(n), f)
        return self._encl.get(id(node))

    def helpers_of(self, file):
        """private fns of `file` that have exactly one call site in it: name -> fn node (they are treated as part of
        their caller when code is compared in canonical form)"""
        if getattr(self, "_helpers", None) is None:
            self._helpers = {}
        if file in self._helpers:
            return self._helpers[file]
        fns = [f for f in self.fns if f.file == file and not f.is_test()]
        names = {}
        for f in fns:
            names.setdefault(f.name, []).append(f)
        uses = {}
        for f in fns:
            if f.body is None:
                continue
            for n in walk(f.body):
                nm = None
                if n["k"] == "Call" and is_node(n["func"]) and n["func"]["k"] == "Path":
                    nm = n["func"]["path"].split("::")[-1]
                elif n["k"] == "MethodCall":
                    nm = n["method"]
                elif n["k"] == "Path":
                    nm = n["path"].split("::")[-1]
                if nm in names and names[nm][0] is not f:
                    uses[nm] = uses.get(nm, 0) + 1
        out = {}
        for nm, fl in names.items():
            # Call nodes are counted twice (the Call and its func Path)
            if len(fl) == 1 and fl[0].node.get("vis", "") == "" and fl[0].body is not None and fl[0].impl_trait is None:
                calls = 0
                for f in fns:
                    if f is fl[0] or f.body is None:
                        continue
                    for n in walk(f.body):
                        if n["k"] == "Call" and is_node(n["func"]) and n["func"]["k"] == "Path" and n["func"]["path"].split("::")[-1] == nm:
                            calls += 1
                        elif n["k"] == "MethodCall" and n["method"] == nm:
                            calls += 1
                refs = uses.get(nm, 0)
                # an extracted helper: private, called from one to three places, and small
                nst = len(fl[0].body.get("stmts", [])) if fl[0].body.get("k") == "Block" else 1
                if 1 <= calls <= 3 and refs <= 2 * calls and nst <= 8 and not any(n["k"] in ("Call", "MethodCall") and (n.get("method") == nm or (n["k"] == "Call" and is_node(n["func"]) and n["func"]["k"] == "Path" and n["func"]["path"].split("::")[-1] == nm)) for n in walk(fl[0].body)):
                    out[nm] = fl[0].node
        self._helpers[file] = out
        return out

    def fns_named(self, file_suffix, name):
        return [f for f in self.fns if f.file.endswith(file_suffix) and f.name == name and not f.is_test()]

    def enum(self, file_suffix, name):
        for (p, n), e in self.enums.items():
            if p.endswith(file_suffix) and n == name:
                return e
        return None

    def struct(self, file_suffix, name):
        for (p, n), e in self.structs.items():
            if p.endswith(file_suffix) and n == name:
                return e
        return None

    def const(self, file_suffix, name, self_ty=None):
        for (p, st, n), e in self.consts.items():
            if p.endswith(file_suffix) and n == name and (self_ty is None or (st and _ty_match(st, self_ty))):
                return e
        return None


def _ty_match(have, want):
    have = re.sub(r"<.*>", "", have).strip()
    want = re.sub(r"<.*>", "", want).strip()
    return have == want or have.endswith("::" + want)


# ---- expression utilities -------------------------------------------------------

def method_chain(expr):
    """decompose a.b(x).c(y) into (base_expr, [(method, args, node), ...]) in call order"""
    chain = []
    e = expr
    while is_node(e) and e["k"] in ("MethodCall", "Try", "Await", "Field"):
        if e["k"] == "MethodCall":
            chain.append((e["method"], e["args"], e))
            e = e["receiver"]
        elif e["k"] == "Field":
            chain.append(("." + e["member"], [], e))
            e = e["base"]
        else:
            chain.append(("?" if e["k"] == "Try" else ".await", [], e))
            e = e["expr"]
    chain.reverse()
    return e, chain


def chain_methods(expr):
    return [m for m, _, _ in method_chain(expr)[1] if not m.startswith(".") and m not in ("?",)]


def callee_path(call):
    """path string of a Call node's function, or None"""
    f = call.get("func")
    if is_node(f) and f["k"] == "Path":
        return f["path"]
    return None


def idents_in(node):
    """all single-segment path identifiers used below node"""
    out = set()
    for n in walk(node):
        if n["k"] == "Path" and "::" not in n["path"]:
            out.add(n["path"])
    return out


def pat_bindings(p):
    out = []
    for n in walk(p):
        if n["k"] == "PIdent":
            out.append(n["name"])
        if n["k"] == "PStruct":
            for f in n["fields"]:
                pass
    return out


# ---- quote! token trees ---------------------------------------------------------

def tok_text(tokens):
    """flat text of a token tree list (interpolations as #name, repetitions as #(..)sep*)"""
    out = []
    for t in tokens:
        k = t["t"]
        if k in ("ident", "lit", "punct"):
            out.append(t["v"])
        elif k == "interp":
            out.append("#" + t["v"])
        elif k == "rep":
            out.append("#(" + tok_text(t["c"]) + ")" + t["sep"] + "*")
        elif k == "group":
            d = t["d"]
            close = {"(": ")", "{": "}", "[": "]", "": ""}[d]
            out.append(d + tok_text(t["c"]) + close)
    return " ".join(x for x in out if x != "")


def tok_walk(tokens):
    """yield (token, parent_list, index) for every token at every depth"""
    stack = [(tokens, i) for i in range(len(tokens) - 1, -1, -1)]
    while stack:
        lst, i = stack.pop()
        t = lst[i]
        yield t, lst, i
        if t["t"] in ("group", "rep"):
            c = t["c"]
            for j in range(len(c) - 1, -1, -1):
                stack.append((c, j))


def tok_interps(tokens):
    return [t["v"] for t, _, _ in tok_walk(tokens) if t["t"] == "interp"]


def quotes_in(node):
    """all quote!/quote_spanned! macro nodes below node (not descending into nested quote tokens)"""
    return [m for m in find_all(node, "Macro") if m["path"] in ("quote", "quote_spanned", "quote::quote")]


def tok_find_seq(tokens, seq):
    """find all positions (list, index) where the flat token sequence `seq` (strings; '#x' for interps,
    '*' wildcard for any single token) occurs consecutively in some list at any depth"""
    hits = []

    def tv(t):
        if t["t"] in ("ident", "lit", "punct"):
            return t["v"]
        if t["t"] == "interp":
            return "#" + t["v"]
        if t["t"] == "group":
            return "G" + t["d"]
        if t["t"] == "rep":
            return "R"
        return "?"

    def scan(lst):
        n = len(seq)
        for i in range(0, len(lst) - n + 1):
            ok = True
            for j in range(n):
                if seq[j] != "*" and tv(lst[i + j]) != seq[j]:
                    ok = False
                    break
            if ok:
                hits.append((lst, i))
        for t in lst:
            if t["t"] in ("group", "rep"):
                scan(t["c"])
    scan(tokens)
    return hits
