"""Inventory of panic-capable constructs in MIR bodies (shared by C09 and others)."""
import re
from collections import Counter, defaultdict
from mirlib import callee_of, callee_name, op_const, op_place

# curated list of std / dependency APIs that panic on some input (matched on the resolved or declared callee)
PANIC_CALLEES = [
    (r"^core::panicking::", "panic"),
    (r"^std::rt::(panic_fmt|begin_panic)", "panic"),
    (r"^std::panicking::begin_panic", "panic"),
    (r"^std::option::Option::<T>::(unwrap|expect)$", "unwrap"),
    (r"^std::result::Result::<T, E>::(unwrap|expect|unwrap_err|expect_err)$", "unwrap"),
    (r"leptos_i18n_parser::utils::UnwrapAt>?::unwrap_at$", "unwrap_at"),
    (r"^std::cell::RefCell::<T>::(borrow|borrow_mut)$", "refcell"),
    (r"^core::str::<impl str>::(split_at|split_at_mut)$", "str-split"),
    (r"^core::str::traits::<impl std::ops::Index(Mut)?<", "str-index"),
    (r"^<.* as std::ops::Index(Mut)?<.*>>::index(_mut)?$", "index"),
    (r"^core::slice::index::<impl std::ops::Index(Mut)?<", "index"),
    (r"^core::slice::<impl \[T\]>::(swap|chunks|chunks_exact|chunks_mut|rchunks|windows|split_at|split_at_mut|copy_from_slice|clone_from_slice|rotate_left|rotate_right)$", "slice-op"),
    (r"^std::vec::Vec::<T, A>::(insert|remove|swap_remove|drain|split_off)$", "vec-op"),
    (r"^std::string::String::(insert|insert_str|remove|drain|replace_range|split_off)$", "string-op"),
    (r"^std::collections::VecDeque::<T, A>::(insert|swap|remove)", "vec-op"),
    (r"^quote::__private::mk_ident$", "ident-new"),
    (r"^proc_macro2::Ident::new(_raw)?$", "ident-new"),
    (r"^<(f64|f32) as quote::ToTokens>::", "float-tokens"),
    (r"^proc_macro2::Literal::(f32|f64)_(un)?suffixed$", "float-tokens"),
    (r"^std::iter::Iterator::step_by$", "step-by"),
    (r"^std::sync::(Mutex|RwLock)", "lock"),
    (r"^std::process::(exit|abort)", "exit"),
    (r"^std::rc::Rc::<T>::try_unwrap", "unwrap"),
    (r"^std::time::Instant::", "time-arith"),
]
_PAN = [(re.compile(p), k) for p, k in PANIC_CALLEES]

IGNORED_ASSERTS = ("NullPointerDereference", "MisalignedPointerDereference")


def classify_call(term):
    f, r = callee_of(term)
    for name in (r, f):
        if not name:
            continue
        for rx, kind in _PAN:
            if rx.search(name):
                return kind, name
    return None, None


def const_str_arg(body, term, idx):
    """string constant passed (possibly through a reborrow/copy chain) as argument idx of a call"""
    if idx >= len(term["args"]):
        return None
    op = term["args"][idx]
    c = op_const(op)
    if c and "str" in c:
        return c["str"]
    p = op_place(op)
    seen = set()
    defs = body.defs()
    while p and p["l"] not in seen:
        seen.add(p["l"])
        ds = [d for d in defs.get(p["l"], []) if d[1] != "term"]
        if len(ds) != 1:
            return None
        rv = ds[0][2]["rv"]
        if rv["k"] == "Use":
            c = op_const(rv["ops"][0])
            if c and "str" in c:
                return c["str"]
            p = op_place(rv["ops"][0])
        elif rv["k"] == "Ref":
            p = rv["place"]
        elif rv["k"] == "Cast":
            c = op_const(rv["ops"][0])
            if c and "str" in c:
                return c["str"]
            p = op_place(rv["ops"][0])
        else:
            return None
    return None


def inventory(body):
    """list of sites: dict(kind, what, line, label, block)"""
    sites = []
    for i, t in body.terms():
        if t["k"] == "Assert":
            if t["assert"] in IGNORED_ASSERTS:
                continue
            sites.append({"kind": "assert", "what": t["assert"], "line": t["line"], "block": i, "term": t, "label": None})
        elif t["k"] == "Call":
            kind, name = classify_call(t)
            if kind is None:
                continue
            label = None
            if kind == "unwrap_at":
                label = const_str_arg(body, t, 1)
            mac = t.get("macro", "")
            m = re.search(r"<?(unreachable|unimplemented|todo|panic|assert|assert_eq|assert_ne|debug_assert|format_ident)!>?$", mac)
            what = name
            if kind == "panic" and m:
                what = m.group(1) + "!"
            if kind == "ident-new" and m:
                what = m.group(1) + "!"
            sites.append({"kind": kind, "what": what, "line": t["line"], "block": i, "term": t, "label": label})
    return sites
