"""Canonical forms of syntax trees: comparison of code modulo a fixed set of behaviour-preserving rewrites.

A fragment rule ("this function still does X the way it was confirmed by reading") compares text. Text changes under
edits that do not change behaviour. This module gives the comparison a normal form so that the following edits are
invisible to it:

  * renaming of local variables, parameters, closure parameters and pattern bindings (alpha-equivalence);
  * `if let P = E {A} else {B}`  <->  `match E { P => A, _ => B }`  (and `None` / `Err(_)` for the second arm);
  * order of match arms whose patterns are distinct constructors without guards;
  * a trailing `return e;`  <->  tail expression `e`;
  * `it.for_each(|p| body);`  <->  `for p in it { body }`,  `for x in &v` <-> `for x in v.iter()`;
  * binding a sub-expression to a single-use immutable local first (`let t = f(x); g(t)` <-> `g(f(x))`), and binding a
    part of a `quote!` template to a local TokenStream that is interpolated later;
  * extracting statements into a private helper function that has a single call site in the file (the call is
    replaced by the helper's body).

Every node keeps the id (`_oid`) of the original node it stands for, so that a fragment located in the original text
can be re-expressed as the canonical texts of the nodes it covers (see rules/common.py: learned patterns)."""
import copy
import re

from astlib import is_node, show as _plain_show, show_pat, norm, tok_text

QUOTES = ("quote", "quote_spanned", "quote::quote")


# ---------------------------------------------------------------------------------------------- generic traversal

def _map_children(n, f):
    """apply f to every child node (in place), including nodes held in plain dicts / lists (arms, fields, ..)"""
    for key, v in list(n.items()):
        if key in ("tokens",):
            continue
        if is_node(v):
            n[key] = f(v)
        elif isinstance(v, dict):
            for k2, vv in list(v.items()):
                if is_node(vv):
                    v[k2] = f(vv)
        elif isinstance(v, list):
            for i, x in enumerate(v):
                if is_node(x):
                    v[i] = f(x)
                elif isinstance(x, dict):
                    for k2, vv in list(x.items()):
                        if is_node(vv):
                            x[k2] = f(vv)
                        elif isinstance(vv, list):
                            for j, y in enumerate(vv):
                                if is_node(y):
                                    vv[j] = f(y)
    return n


def _walk(n):
    stack = [n]
    while stack:
        x = stack.pop()
        if is_node(x):
            yield x
            for key, v in x.items():
                if key == "tokens":
                    continue
                if isinstance(v, (dict, list)):
                    stack.append(v)
        elif isinstance(x, dict):
            for v in x.values():
                if isinstance(v, (dict, list)):
                    stack.append(v)
        elif isinstance(x, list):
            for v in reversed(x):
                if isinstance(v, (dict, list)):
                    stack.append(v)


def assign_oids(root):
    i = 0
    for n in _walk(root):
        if "_oid" not in n:
            n["_oid"] = i
        i += 1


# ---------------------------------------------------------------------------------------------- rewrites

def _is_path(n, name=None):
    return is_node(n) and n["k"] == "Path" and not n.get("generics") and not n.get("qself") and (name is None or n["path"] == name)


def _pat_head(p):
    k = p["k"]
    if k in ("PTupleStruct", "PStruct", "PPath"):
        return p["path"]
    if k == "PIdent" and p["name"][:1].isupper() and "sub" not in p:
        return p["name"]
    if k == "PRef":
        return _pat_head(p["pat"])
    if k == "PLit":
        return "lit:" + norm(p["text"])
    return None


def _block(stmts=None):
    return {"k": "Block", "stmts": stmts or []}


def _contains(n, kinds):
    return any(x["k"] in kinds for x in _walk(n))


def _uses(n, name):
    """number of references to local `name` below n, and whether some are inside a closure or loop"""
    cnt = 0
    deep = 0

    def go(x, inner):
        nonlocal cnt, deep
        if is_node(x):
            k = x["k"]
            if _is_path(x, name):
                cnt += 1
                deep += inner
            if k == "Macro" and "tokens" in x:
                q = x.get("path") in QUOTES
                for t in _tok_iter(x["tokens"]):
                    if (t["t"] == "interp" or (not q and t["t"] == "ident")) and t["v"] == name:
                        cnt += 1
                        deep += inner
                        if not q and "args" not in x:
                            # inside the raw tokens of a macro that is not parsed: cannot be substituted
                            deep += 1000
                if "args" in x and not q:
                    # args duplicate the tokens: already counted
                    return
            inner2 = inner or k in ("Closure", "ForLoop", "While", "Loop")
            for key, v in x.items():
                if key in ("tokens", "args") and k == "Macro":
                    continue
                if isinstance(v, (dict, list)):
                    go(v, inner2)
        elif isinstance(x, dict):
            for v in x.values():
                if isinstance(v, (dict, list)):
                    go(v, inner)
        elif isinstance(x, list):
            for v in x:
                go(v, inner)
    go(n, 0)
    return cnt, deep


def _tok_iter(tokens):
    for t in tokens:
        yield t
        if t["t"] in ("group", "rep"):
            yield from _tok_iter(t["c"])


def _binds(n, name):
    for x in _walk(n):
        if x["k"] == "PIdent" and x["name"] == name:
            return True
    return False


def _subst(n, name, repl):
    """replace references to local `name` below n by (copies of) repl; quote interpolations get repl's tokens"""
    def f(x):
        if _is_path(x, name):
            r = copy.deepcopy(repl)
            return r
        if x["k"] == "Macro" and "tokens" in x:
            _subst_tokens(x, name, repl)
        return _map_children(x, f)
    return f(n) if is_node(n) else n


def _subst_tokens(m, name, repl):
    is_q = m.get("path") in QUOTES
    rq = is_node(repl) and repl["k"] == "Macro" and repl.get("path") in QUOTES and "tokens" in repl

    def go(lst):
        out = []
        for t in lst:
            if t["t"] in ("group", "rep"):
                t = dict(t)
                t["c"] = go(t["c"])
                out.append(t)
            elif t["t"] == "interp" and t["v"] == name and is_q and rq:
                out.extend(copy.deepcopy(repl["tokens"]))
            elif t["t"] == "interp" and t["v"] == name and is_q:
                out.append({"t": "interp", "v": "(" + _plain_show(repl) + ")"})
            else:
                out.append(t)
        return out
    m["tokens"] = go(m["tokens"])
    if "args" in m and not is_q:
        m["args"] = [_subst(a, name, repl) for a in m["args"]]


def _inline_lets(block, helpers_pure=False):
    stmts = block["stmts"]
    i = 0
    while i < len(stmts):
        s = stmts[i]
        if s["k"] == "Let" and "init" in s and "else" not in s and s["pat"]["k"] == "PIdent" \
                and not s["pat"].get("mut") and not s["pat"].get("by_ref") and "sub" not in s["pat"]:
            name = s["pat"]["name"]
            init = s["init"]
            rest = stmts[i + 1:]
            rest_node = {"k": "Block", "stmts": rest}
            cnt, deep = _uses(rest_node, name)
            rebound = _binds(rest_node, name)
            is_q = is_node(init) and init["k"] == "Macro" and init.get("path") in QUOTES
            pure = is_q or (is_node(init) and init["k"] in ("Path", "Lit", "Field"))
            simple = is_node(init) and not _contains(init, ("Try", "Return", "Break", "Continue", "Await", "Block", "Match", "If", "Closure", "Macro") if not is_q else ())
            if not rebound and cnt >= 1 and ((cnt == 1 and deep == 0 and (simple or pure)) or (pure and is_q)):
                # never inline across a statement that could observe the difference for non-pure inits:
                # only when the single use is in the very next statement, or the init is pure
                ok = pure
                if not ok and rest:
                    # the use is in the next statement that is not itself a plain binding
                    for st2 in rest:
                        c1, _d = _uses(st2, name)
                        if c1 == 1:
                            ok = True
                            break
                        if st2["k"] != "Let" or _contains(st2, ("Try", "Return", "Break", "Continue", "Await", "Closure", "Macro")):
                            break
                if ok:
                    new_rest = [_subst(x, name, init) for x in rest]
                    stmts[i:] = new_rest
                    continue
        i += 1
    return block


def _norm_iter(it):
    if is_node(it) and it["k"] == "Ref":
        return {"k": "MethodCall", "receiver": it["expr"], "method": "iter_mut" if it.get("mut") else "iter", "args": [], "turbofish": "", "_oid": it.get("_oid")}
    if is_node(it) and it["k"] == "MethodCall" and it["method"] == "into_iter" and not it["args"]:
        return it["receiver"]
    return it


def _rw(n, helpers):
    n = _map_children(n, lambda c: _rw(c, helpers))
    k = n["k"]
    # matches!(x, P if g)  ->  match x { P if g => true, _ => false }
    if k == "Macro" and n.get("path") == "matches" and is_node(n.get("scrutinee")) and is_node(n.get("mpat")):
        arm = {"pat": n["mpat"], "body": {"k": "Lit", "text": "true", "bool": True}}
        if n.get("mguard") is not None:
            arm["guard"] = n["mguard"]
        n = {"k": "Match", "scrutinee": n["scrutinee"], "arms": [arm, {"pat": {"k": "PWild"}, "body": {"k": "Lit", "text": "false", "bool": False}}],
             "_oid": n.get("_oid"), "line": n.get("line")}
        k = "Match"
    # `if !c {A} else {B}` -> `if c {B} else {A}`
    if k == "If" and is_node(n["cond"]) and n["cond"]["k"] == "Unary" and n["cond"]["op"] == "!" and n.get("else") is not None \
            and is_node(n["else"]) and n["else"]["k"] == "Block":
        n["cond"] = n["cond"]["expr"]
        n["then"], n["else"] = n["else"], n["then"]
    # if let -> match
    if k == "If" and is_node(n["cond"]) and n["cond"]["k"] == "LetExpr":
        c = n["cond"]
        els = n.get("else") or _block()
        n = {"k": "Match", "scrutinee": c["expr"], "arms": [{"pat": c["pat"], "body": n["then"]}, {"pat": {"k": "PWild"}, "body": els}],
             "_oid": n.get("_oid"), "line": n.get("line")}
        k = "Match"
    # `if o.is_none() {A} else {B}` and friends are matches on the constructor
    if k == "If" and is_node(n["cond"]) and n["cond"]["k"] == "MethodCall" and not n["cond"]["args"] \
            and n["cond"]["method"] in ("is_none", "is_some", "is_ok", "is_err") and n.get("else") is not None:
        c = n["cond"]
        pat = {"is_none": {"k": "PIdent", "name": "None"},
               "is_some": {"k": "PTupleStruct", "path": "Some", "elems": [{"k": "PWild"}]},
               "is_ok": {"k": "PTupleStruct", "path": "Ok", "elems": [{"k": "PWild"}]},
               "is_err": {"k": "PTupleStruct", "path": "Err", "elems": [{"k": "PWild"}]}}[c["method"]]
        n = {"k": "Match", "scrutinee": c["receiver"], "arms": [{"pat": pat, "body": n["then"]}, {"pat": {"k": "PWild"}, "body": n["else"]}],
             "_oid": n.get("_oid"), "line": n.get("line")}
        k = "Match"
    if k == "Match":
        arms = n["arms"]
        if len(arms) == 2 and not any(a.get("guard") for a in arms):
            heads = [_pat_head(a["pat"]) for a in arms]
            opt = {"Some", "None", "Ok", "Err"}
            if all(h in opt for h in heads) and heads[0] != heads[1]:
                # two-constructor match: one arm stays explicit, its complement is a catch-all. The arm that binds
                # a value stays; if none binds, `None` / `Err(_)`... the arm without payload stays.
                def binds(p):
                    return any(x["k"] == "PIdent" and not x["name"][:1].isupper() for x in _walk(p))
                b = [binds(a["pat"]) for a in arms]
                if b[0] != b[1]:
                    keep = 0 if b[0] else 1
                else:
                    nopay = [a["pat"]["k"] != "PTupleStruct" for a in arms]
                    keep = 0 if nopay[0] else (1 if nopay[1] else 0)
                arms[1 - keep]["pat"] = {"k": "PWild"}
                n["arms"] = [arms[keep], arms[1 - keep]]
                arms = n["arms"]
            elif heads[0] in opt and arms[1]["pat"]["k"] == "PWild" and not any(x["k"] == "PIdent" and not x["name"][:1].isupper() for x in _walk(arms[0]["pat"])) \
                    and arms[0]["pat"]["k"] == "PTupleStruct":
                # `Some(_) => A, _ => B`  ==  `None => B, _ => A`
                comp = {"Some": {"k": "PIdent", "name": "None"}, "Ok": None, "Err": None}.get(heads[0])
                if comp is not None:
                    n["arms"] = [{"pat": comp, "body": arms[1]["body"]}, {"pat": {"k": "PWild"}, "body": arms[0]["body"]}]
                    arms = n["arms"]
        if not any(a.get("guard") for a in arms):
            heads = [_pat_head(a["pat"]) for a in arms]
            wild = [a for a, h in zip(arms, heads) if a["pat"]["k"] == "PWild"]
            named = [(h, a) for a, h in zip(arms, heads) if a["pat"]["k"] != "PWild"]
            if all(h is not None for h, _a in named) and len(set(h for h, _a in named)) == len(named) and len(wild) <= 1 \
                    and (not wild or arms[-1] is wild[0]) and not any(a["pat"]["k"] == "POr" for a in arms):
                named.sort(key=lambda x: x[0])
                n["arms"] = [a for _h, a in named] + wild
        # a block body holding one expression is that expression
        for a in n["arms"]:
            b = a["body"]
            if is_node(b) and b["k"] == "Block" and len(b["stmts"]) == 1 and b["stmts"][0]["k"] == "ExprStmt" and not b["stmts"][0].get("semi") \
                    and not (is_node(b["stmts"][0]["expr"]) and b["stmts"][0]["expr"]["k"] in ("Return",)):
                a["body"] = b["stmts"][0]["expr"]
            elif is_node(b) and b["k"] == "Block" and len(b["stmts"]) == 1 and b["stmts"][0]["k"] == "ForLoop":
                a["body"] = b["stmts"][0]
    if k == "ForLoop":
        n = _rw_for(n)
    return _rw_tail(n, k, helpers)


def _rw_for(n):
    if True:
        n["iter"] = _norm_iter(n["iter"])
        # `for (_, v) in map`  ==  `for v in map.into_values()` ; `for (k, _) in map` == `for k in map.into_keys()`
        p = n["pat"]
        if p["k"] == "PTuple" and len(p["elems"]) == 2 and (p["elems"][0]["k"] == "PWild") != (p["elems"][1]["k"] == "PWild"):
            keep = 1 if p["elems"][0]["k"] == "PWild" else 0
            it = n["iter"]
            base, meth = it, None
            if is_node(it) and it["k"] == "MethodCall" and it["method"] in ("iter", "iter_mut", "into_iter") and not it["args"]:
                base, meth = it["receiver"], it["method"]
            suffix = {"iter": "", "iter_mut": "_mut", "into_iter": "", None: ""}[meth]
            name = ("values" if keep == 1 else "keys") + suffix if meth in ("iter", "iter_mut") else ("into_values" if keep == 1 else "into_keys")
            n["pat"] = p["elems"][keep]
            n["iter"] = {"k": "MethodCall", "receiver": base, "method": name, "args": [], "turbofish": "", "_oid": it.get("_oid") if is_node(it) else None}
    return n


def _rw_tail(n, k, helpers):
    if k == "MethodCall" and n["method"] == "for_each" and len(n["args"]) == 1 and is_node(n["args"][0]) \
            and n["args"][0]["k"] == "Closure" and len(n["args"][0]["inputs"]) == 1 and not _contains(n["args"][0]["body"], ("Try", "Return")):
        cl = n["args"][0]
        body = cl["body"] if is_node(cl["body"]) and cl["body"]["k"] == "Block" else _block([{"k": "ExprStmt", "expr": cl["body"], "semi": True}])
        n = {"k": "ForLoop", "pat": cl["inputs"][0], "iter": _norm_iter(n["receiver"]), "body": body, "_oid": n.get("_oid"), "line": n.get("line")}
        k = "ForLoop"
        n = _rw_for(n)
    if k == "ExprStmt" and is_node(n["expr"]) and n["expr"]["k"] == "ForLoop":
        # a loop statement is the loop
        n = dict(n["expr"], _oid=n.get("_oid", n["expr"].get("_oid")))
        k = "ForLoop"
    if k == "Block":
        # a nested block that binds nothing (left by inlining a helper) is spliced into its parent
        out = []
        for st in n["stmts"]:
            e = st.get("expr") if st["k"] == "ExprStmt" else None
            if is_node(e) and e["k"] == "Block" and not any(x["k"] == "Let" for x in e["stmts"]) and st is not n["stmts"][-1]:
                out.extend(e["stmts"][:-1])
                if e["stmts"]:
                    last = e["stmts"][-1]
                    if last["k"] == "ExprStmt" and not last.get("semi"):
                        last = dict(last)
                        last["semi"] = True
                    out.append(last)
            else:
                out.append(st)
        n["stmts"] = out
        _inline_lets(n)
    if k in ("Call", "MethodCall") and helpers:
        inl = _try_inline_helper(n, helpers)
        if inl is not None:
            n = inl
    return n


def _try_inline_helper(call, helpers):
    """helpers: name -> (fn node, is_method). Only `name(args)`, `Self::name(args)`, `Type::name(args)` and
    `self.name(args)` with plain arguments are inlined."""
    if call["k"] == "Call" and is_node(call["func"]) and call["func"]["k"] == "Path":
        name = call["func"]["path"].split("::")[-1]
        recv = None
    elif call["k"] == "MethodCall" and _is_path(call["receiver"], "self"):
        name = call["method"]
        recv = call["receiver"]
    else:
        return None
    h = helpers.get(name)
    if h is None:
        return None
    fn = h
    params = []
    for i in fn["sig"]["inputs"]:
        p = i.get("pat") or {}
        if i.get("receiver") or (p.get("k") == "PIdent" and p.get("name") == "self"):
            params.append("self")
        elif p.get("k") == "PIdent":
            params.append(p["name"])
        else:
            return None
    args = list(call["args"])
    if recv is not None:
        if not params or params[0] != "self":
            return None
        params = params[1:]
    elif params and params[0] == "self":
        return None
    if len(params) != len(args) or fn.get("body") is None:
        return None
    body = copy.deepcopy(fn["body"])
    for x in _walk(body):
        x.pop("_oid", None)
    if _contains(body, ("Return",)):
        # a trailing return / guard-style early returns are expressions in disguise; any other early exit is not
        body = _early_returns(_tail_return(body))
        body = _rw(body, {})
        if _contains(body, ("Return",)):
            return None
    lets = [{"k": "Let", "pat": {"k": "PIdent", "name": p}, "init": a, "_param": True} for p, a in zip(params, args)]
    blk = {"k": "Block", "stmts": lets + body["stmts"], "_oid": call.get("_oid"), "line": call.get("line")}
    blk = _rw_block_only(blk)
    if len(blk["stmts"]) == 1 and blk["stmts"][0]["k"] == "ExprStmt" and not blk["stmts"][0].get("semi"):
        e = blk["stmts"][0]["expr"]
        if is_node(e):
            e.setdefault("_oid", call.get("_oid"))
        return e
    return blk


def _rw_block_only(blk):
    # parameters bound to plain arguments are substituted even when used several times
    stmts = blk["stmts"]
    i = 0
    while i < len(stmts) and stmts[i]["k"] == "Let" and stmts[i].get("_param"):
        s = stmts[i]
        init = s.get("init")
        name = s["pat"]["name"]
        rest = {"k": "Block", "stmts": stmts[i + 1:]}
        cnt, deep = _uses(rest, name)
        plain = is_node(init) and (init["k"] in ("Path", "Lit", "Field") or (init["k"] == "Ref" and is_node(init["expr"]) and init["expr"]["k"] in ("Path", "Field")))
        if (plain or cnt <= 1) and not _binds(rest, name):
            stmts[i:] = [_subst(x, name, init) for x in stmts[i + 1:]]
            continue
        i += 1
    return blk


def _early_returns(body):
    """in a function body: `if c { ..; return X; } rest` is `if c { ..; X } else { rest }`"""
    if not (is_node(body) and body["k"] == "Block"):
        return body
    stmts = body["stmts"]
    for i, st in enumerate(stmts[:-1]):
        if st["k"] != "ExprStmt" or not is_node(st["expr"]) or st["expr"]["k"] != "If" or st["expr"].get("else") is not None:
            continue
        iff = st["expr"]
        th = iff["then"]
        if not (is_node(th) and th["k"] == "Block" and th["stmts"]):
            continue
        last = th["stmts"][-1]
        if not (last["k"] == "ExprStmt" and is_node(last["expr"]) and last["expr"]["k"] == "Return"):
            continue
        if any(_contains(x, ("Return",)) for x in th["stmts"][:-1]):
            continue
        th2 = {"k": "Block", "stmts": th["stmts"][:-1] + [{"k": "ExprStmt", "expr": last["expr"].get("expr") or {"k": "Tuple", "elems": []}, "semi": False}], "_oid": th.get("_oid")}
        rest = _early_returns(_tail_return({"k": "Block", "stmts": stmts[i + 1:]}))
        new_if = {"k": "If", "cond": iff["cond"], "then": th2, "else": rest, "_oid": iff.get("_oid"), "line": iff.get("line")}
        body["stmts"] = stmts[:i] + [{"k": "ExprStmt", "expr": new_if, "semi": False, "_oid": st.get("_oid")}]
        return body
    return body


def _tail_return(body):
    if is_node(body) and body["k"] == "Block" and body["stmts"]:
        last = body["stmts"][-1]
        if last["k"] == "ExprStmt" and is_node(last["expr"]) and last["expr"]["k"] == "Return":
            body["stmts"][-1] = {"k": "ExprStmt", "expr": last["expr"].get("expr") or {"k": "Tuple", "elems": []}, "semi": False, "_oid": last.get("_oid")}
    return body


def normalise(node, helpers=None, top=False):
    """normal form of a function body / expression (a rewritten deep copy; `_oid`s are kept)"""
    assign_oids(node)
    n = copy.deepcopy(node)
    if n["k"] == "Block" and top:
        n = _early_returns(_tail_return(n))
    n = _rw(n, helpers or {})
    if n["k"] == "Block":
        n = _tail_return(n)
    for c in _walk(n):
        if c["k"] == "Closure" and is_node(c.get("body")):
            c["body"] = _tail_return(c["body"])
    return n


# ---------------------------------------------------------------------------------------------- canonical text

def binders_of(fn_node, node):
    names = set()
    if fn_node is not None:
        for i in fn_node.get("sig", {}).get("inputs", []):
            for x in _walk(i.get("pat") or {}):
                if x["k"] == "PIdent":
                    names.add(x["name"])
        src = fn_node.get("body") or node
    else:
        src = node
    for x in _walk(src):
        if x["k"] == "PIdent" and not x["name"][:1].isupper():
            names.add(x["name"])
    names.discard("self")
    return names


def _mark(n, binders, params=None):
    """scope-aware renaming of local variables by *provenance*: a variable is named after what it is bound to, not
    after its spelling - parameter i -> P<i>; pattern binding -> <constructor>.<field or position>; `let x = e` -> the
    canonical text of e (hashed); closure parameter -> C<i>; loop variable -> F<position>. References resolve to the
    innermost binding. Names bound outside `n` that are not parameters keep their spelling (marked as free)."""
    import hashlib

    def bind(p, env, kind, init_text=None):
        def go(q, pos):
            k = q["k"]
            if k == "PIdent":
                if q["name"] in binders and not q["name"].startswith("§"):
                    if pos is None and kind == "let":
                        lab = "§L%s§" % hashlib.sha1((init_text or "").encode()).hexdigest()[:8]
                    elif pos is None:
                        lab = "§%s§" % kind
                    else:
                        lab = "§%s§" % pos
                    env[q["name"]] = lab
                    q["name"] = lab
                if "sub" in q:
                    go(q["sub"], pos)
            elif k == "PStruct":
                for f in q["fields"]:
                    go(f["pat"], (pos + "." if pos else "") + q["path"].split("::")[-1] + "." + f["member"])
            elif k == "PTupleStruct":
                for i2, e in enumerate(q["elems"]):
                    go(e, (pos + "." if pos else "") + q["path"].split("::")[-1] + ".%d" % i2)
            elif k in ("PTuple", "PSlice"):
                for i2, e in enumerate(q["elems"]):
                    go(e, (pos + "." if pos else kind + ".") + "%d" % i2)
            elif k in ("PRef", "PType"):
                go(q["pat"], pos)
            elif k == "POr":
                for c in q["cases"]:
                    go(c, pos)
        go(p, None)

    def ref(name, env):
        if name in env:
            return env[name]
        if name in binders:
            return "§free:" + name + "§"
        return None

    def toks(m, env):
        q = m.get("path") in QUOTES
        for t in _tok_iter(m["tokens"]):
            if "v" in t and (t["t"] == "interp" or (not q and t["t"] == "ident")):
                r = ref(t["v"], env)
                if r:
                    t["v"] = r
        m["_toktext"] = m["path"] + "!(" + tok_text(m["tokens"]) + ")"

    def text_of(x):
        return re.sub(r"[\s()]+", "", _plain_show(x))

    def go(x, env):
        if not is_node(x):
            if isinstance(x, list):
                for y in x:
                    go(y, env)
            elif isinstance(x, dict):
                for y in x.values():
                    if isinstance(y, (dict, list)):
                        go(y, env)
            return
        k = x["k"]
        if k == "Path":
            if not x.get("qself"):
                r = ref(x["path"], env)
                if r:
                    x["path"] = r
            return
        if k == "Macro":
            if "tokens" in x:
                toks(x, env)
                if "args" not in x:
                    x["text"] = x["_toktext"][len(x["path"]) + 2:-1]
            if "args" in x and x.get("path") not in QUOTES:
                for a in x["args"]:
                    go(a, env)
            return
        if k == "Block":
            e2 = dict(env)
            for st in x["stmts"]:
                go(st, e2)
            return
        if k == "Let":
            it = None
            if "init" in x:
                go(x["init"], env)
                it = text_of(x["init"])
            if "else" in x:
                go(x["else"], dict(env))
            bind(x["pat"], env, "let", it)
            return
        if k == "Closure":
            e2 = dict(env)
            for i2, p in enumerate(x["inputs"]):
                bind(p, e2, "C%d" % i2)
            go(x["body"], e2)
            return
        if k == "Match":
            go(x["scrutinee"], env)
            for a in x["arms"]:
                e2 = dict(env)
                bind(a["pat"], e2, "m")
                if a.get("guard"):
                    go(a["guard"], e2)
                go(a["body"], e2)
            return
        if k == "ForLoop":
            go(x["iter"], env)
            e2 = dict(env)
            bind(x["pat"], e2, "F")
            go(x["body"], e2)
            return
        if k in ("If", "While") and is_node(x.get("cond")) and x["cond"]["k"] == "LetExpr":
            go(x["cond"]["expr"], env)
            e2 = dict(env)
            bind(x["cond"]["pat"], e2, "m")
            go(x.get("then") or x.get("body"), e2)
            if x.get("else"):
                go(x["else"], dict(env))
            return
        if k.startswith("P") and k != "Path":
            bind(x, env, "m")
            return
        for key, v in x.items():
            if key in ("tokens",):
                continue
            if isinstance(v, (dict, list)):
                go(v, env)
    env0 = {}
    for i2, pn in enumerate(params or []):
        if pn and pn != "self":
            env0[pn] = "§P%d§" % i2
    go(n, env0)
    return n


def _show(n):
    """astlib.show, but macros are printed from their (renamed) token trees"""
    if is_node(n) and n["k"] == "Macro" and "_toktext" in n and "args" not in n:
        return n["_toktext"]
    return _plain_show(n)


def _flat(s):
    s = re.sub(r"[\s()]+", "", s)
    s = re.sub(r";+", ";", s).replace(";}", "}").replace("};", "}")
    return s


def ctext(node, binders, params=None):
    """canonical flat text of an (already normalised) node taken on its own: variables named by provenance (see _mark);
    names bound outside the node keep their spelling"""
    m = _mark(copy.deepcopy(node), binders, params)
    return _flat(_plain_show(m).replace("§free:", "§"))


def arm_node(arm):
    """a match arm as a pseudo node (arms are plain dicts in the tree)"""
    n = {"k": "Tuple", "elems": [{"k": "Other", "text": "ARM"}, arm["pat"]] + ([arm["guard"]] if arm.get("guard") else []) + [arm["body"]]}
    return n


def all_ctexts(norm_root, binders, minlen=6, params=None):
    """canonical text of every node (and every match arm) of a normalised tree, computed in the context of the whole
    tree (a variable used in a sub-expression is named after its binding site elsewhere in the function):
    oid -> text, and the set of texts. An arm is keyed by the oid of its body with the prefix 'arm'."""
    by_oid = {}
    texts = set()
    marked = _mark(copy.deepcopy(norm_root), binders, params)
    for x in _walk(marked):
        if x["k"].startswith("P") and x["k"] != "Path":
            continue
        t = _flat(_plain_show(x).replace("§free:", "§"))
        if len(t) >= minlen:
            texts.add(t)
            if x.get("_oid") is not None:
                by_oid.setdefault(x["_oid"], t)
        if x["k"] == "Match":
            for a in x["arms"]:
                t = _flat(_plain_show(arm_node(a)).replace("§free:", "§"))
                texts.add(t)
                b = a["body"]
                if is_node(b) and b.get("_oid") is not None:
                    by_oid.setdefault("arm%s" % b["_oid"], t)
    return by_oid, texts
