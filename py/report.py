"""Rule results, known-findings handling and evidence writing."""
import json
import os
import time
import tomllib

VERIF = os.path.dirname(os.path.dirname(os.path.abspath(__file__)))


class Violation:
    def __init__(self, rule, key, msg, file=None, line=None, detail=None):
        self.rule = rule
        self.key = key          # stable site key: no line numbers
        self.msg = msg
        self.file = file
        self.line = line
        self.detail = detail or {}

    def to_json(self):
        return {"rule": self.rule, "key": self.key, "msg": self.msg, "file": self.file, "line": self.line,
                "detail": self.detail}


class Rule:
    """One structural rule of a property: what was analysed (instances) and what broke (violations)."""

    def __init__(self, rid, title, reason, floor=1):
        self.id = rid
        self.title = title
        self.reason = reason    # why the clause is a necessary condition of the property
        self.floor = floor      # minimum number of instances confirmed by hand on the pinned tree
        self.instances = []     # dicts: {"site":..., "what":...}
        self.violations = []
        self.notes = []

    def inst(self, site, what, **kw):
        d = {"site": site, "what": what}
        d.update(kw)
        self.instances.append(d)

    def viol(self, key, msg, file=None, line=None, **detail):
        self.violations.append(Violation(self.id, key, msg, file, line, detail))

    def missing(self, anchor, why=""):
        self.viol("anchor-missing:" + anchor, "anchor not found: %s %s (fail closed: the rule cannot see the code it was written for)" % (anchor, why))

    def note(self, s):
        self.notes.append(s)

    def finish(self):
        if len(self.instances) < self.floor and not self.violations:
            self.viol("floor:" + self.id, "rule examined %d instance(s), fewer than the %d confirmed by hand on the pinned tree (vacuous pass refused)" % (len(self.instances), self.floor))
        return self


def load_known():
    p = os.path.join(VERIF, "known_findings.toml")
    if not os.path.exists(p):
        return [], []
    with open(p, "rb") as fh:
        d = tomllib.load(fh)
    return d.get("finding", []), d.get("fixed", [])


def conclude(prop, tier, seed, rules, t0, explanation, assumptions, extra=None):
    """subtract known findings, write evidence + replay files, print verdict; returns exit code"""
    findings, _fixed = load_known()
    known = {(f["property"], f["key"]): f for f in findings}
    unlisted = []
    listed = []
    for r in rules:
        for v in r.violations:
            f = known.get((prop, v.key))
            if f is not None:
                listed.append((v, f))
            else:
                unlisted.append(v)
    ev_dir = os.environ.get("VERIF_EVIDENCE_DIR") or os.path.join(VERIF, "evidence")
    rp_dir = os.path.join(ev_dir, "replay")
    os.makedirs(rp_dir, exist_ok=True)
    for old in os.listdir(rp_dir):
        if old.startswith(prop + "-"):
            os.remove(os.path.join(rp_dir, old))
    n_inst = sum(len(r.instances) for r in rules)
    sites = set()
    for r in rules:
        for i in r.instances:
            sites.add((r.id, i["site"]))
    samples = []
    for r in rules:
        for i in r.instances[:3]:
            samples.append({"rule": r.id, "site": i["site"], "what": i["what"]})
    per_rule = [{"rule": r.id, "title": r.title, "why_necessary": r.reason, "instances": len(r.instances),
                 "floor": r.floor, "violations": len(r.violations), "notes": r.notes[:20],
                 "all_instances": r.instances[:400]} for r in rules]
    cov = {
        "explanation": explanation,
        "evaluations": n_inst,
        "distinct_nontrivial": len(sites),
        "rule": "one evaluation = one rule instance (a code site, table row, template or path obligation re-extracted from /repo on this run); distinct = distinct (rule, site) pairs; every instance is non-trivial in that a rule instance is only recorded when the anchor was found and the structural condition was actually evaluated on it",
        "samples": samples[:40],
        "obligations": n_inst,
        "discharged": n_inst - sum(len(r.violations) for r in rules),
        "rules": per_rule,
        "known_findings_matched": [f["key"] for _, f in listed],
        "exhaustive": False,
    }
    if extra:
        cov.update(extra)
    ev = {
        "property_id": prop,
        "tier": tier,
        "seed": seed,
        "level": "other",
        "coverage": cov,
        "assumptions": assumptions,
        "wall_s": round(time.time() - t0, 2),
        "violations": len(unlisted),
    }
    with open(os.path.join(ev_dir, prop + ".json"), "w") as fh:
        json.dump(ev, fh, indent=1)
    for r in rules:
        print("  %-10s %-60s instances=%-4d violations=%d" % (r.id, r.title[:60], len(r.instances), len(r.violations)))
    for v, f in listed:
        print("KNOWN-FINDING: property=%s %s [%s] %s" % (prop, f.get("what", v.msg), v.key, v.msg))
    code = 0
    for n, v in enumerate(unlisted):
        rp = os.path.join(rp_dir, "%s-%d.json" % (prop, n))
        with open(rp, "w") as fh:
            json.dump(v.to_json(), fh, indent=1)
        loc = ("%s:%s" % (v.file, v.line)) if v.file else ""
        print("  !! %s %s %s -- %s" % (v.rule, v.key, loc, v.msg))
        print("VIOLATION property=%s replay=%s" % (prop, rp))
        code = 1
    if code == 0:
        print("OK property=%s rules=%d instances=%d known_findings=%d wall=%.1fs" % (prop, len(rules), n_inst, len(listed), time.time() - t0))
    return code
