"""Facts builder: AST facts (syn) and MIR facts (rustc_private driver) for a source tree.

Facts are rebuilt from the *current* working tree of the repository whenever the
content hash of its sources changes; they are cached under /verif/.cache/facts/<hash>/.
"""
import fcntl
import glob
import hashlib
import json
import os
import shutil
import subprocess
import sys
import time

VERIF = os.path.dirname(os.path.dirname(os.path.abspath(__file__)))
CACHE = os.path.join(VERIF, ".cache")
CRATES = ["leptos_i18n_parser", "leptos_i18n_macro", "leptos_i18n_build", "leptos_i18n", "leptos_i18n_router"]
ASTFACTS = os.path.join(VERIF, "tools/astfacts/target/release/astfacts")
MIRFACTS = os.path.join(VERIF, "tools/mirfacts/target/release/mirfacts")

# body-count floors per crate for the `main` configuration (measured on the pinned tree:
# parser 456, macro 370, build 55, leptos_i18n / router measured when the engine was built)
BODY_FLOORS = {"leptos_i18n_parser": 400, "leptos_i18n_macro": 300, "leptos_i18n_build": 45,
               "leptos_i18n": 150, "leptos_i18n_router": 60}

MAIN_FEATURES = ",".join([
    "leptos_i18n/plurals", "leptos_i18n/format_nums", "leptos_i18n/format_datetime",
    "leptos_i18n/format_list", "leptos_i18n/format_currency", "leptos_i18n/dynamic_load",
    "leptos_i18n/ssr", "leptos_i18n/interpolate_display", "leptos_i18n/track_locale_files",
    "leptos_i18n_router/ssr",
])

# name -> (cargo args, crates expected)
CONFIGS = {
    "main": (["-p", "leptos_i18n_parser", "-p", "leptos_i18n_macro", "-p", "leptos_i18n_build",
              "-p", "leptos_i18n", "-p", "leptos_i18n_router", "--features", MAIN_FEATURES], CRATES),
    "yaml": (["-p", "leptos_i18n_parser", "--no-default-features", "--features", "yaml_files,plurals"],
             ["leptos_i18n_parser"]),
    "json5": (["-p", "leptos_i18n_parser", "--no-default-features", "--features", "json5_files,plurals"],
              ["leptos_i18n_parser"]),
    "bare": (["-p", "leptos_i18n_parser", "--no-default-features", "--features", "json_files,suppress_key_warnings"],
             ["leptos_i18n_parser"]),
    "hydrate": (["-p", "leptos_i18n", "--features",
                 "leptos_i18n/plurals,leptos_i18n/format_nums,leptos_i18n/format_datetime,leptos_i18n/format_list,leptos_i18n/format_currency,leptos_i18n/dynamic_load,leptos_i18n/hydrate"],
                ["leptos_i18n", "leptos_i18n_macro", "leptos_i18n_parser"]),
    "plain": (["-p", "leptos_i18n", "-p", "leptos_i18n_macro", "--features",
               "leptos_i18n/plurals,leptos_i18n/format_nums,leptos_i18n/format_datetime,leptos_i18n/format_list,leptos_i18n/format_currency,leptos_i18n/interpolate_display"],
              ["leptos_i18n", "leptos_i18n_macro", "leptos_i18n_parser"]),
}


class BuildError(Exception):
    pass


def source_files(repo):
    out = []
    for c in CRATES:
        for root, _dirs, files in os.walk(os.path.join(repo, c, "src")):
            for f in files:
                if f.endswith(".rs"):
                    out.append(os.path.join(root, f))
    out.sort()
    return out


def hashed_files(repo):
    files = source_files(repo)
    for c in CRATES:
        files.append(os.path.join(repo, c, "Cargo.toml"))
    files.append(os.path.join(repo, "Cargo.toml"))
    files.append(os.path.join(repo, "Cargo.lock"))
    files += sorted(glob.glob(os.path.join(repo, "docs/book/src/**/*.md"), recursive=True))
    return files


def tree_hash(repo):
    h = hashlib.sha256()
    for f in hashed_files(repo):
        h.update(os.path.relpath(f, repo).encode())
        h.update(b"\0")
        try:
            with open(f, "rb") as fh:
                h.update(fh.read())
        except OSError:
            h.update(b"<missing>")
        h.update(b"\0")
    return h.hexdigest()[:20]


def tool_hash(tool):
    """the fact format depends on the tool that wrote it: part of the cached file / directory name"""
    with open(os.path.join(VERIF, "tools", tool, "src", "main.rs"), "rb") as fh:
        return hashlib.sha256(fh.read()).hexdigest()[:10]


class Lock:
    def __init__(self, name="build.lock"):
        os.makedirs(CACHE, exist_ok=True)
        self.path = os.path.join(CACHE, name)

    def __enter__(self):
        self.fh = open(self.path, "w")
        fcntl.flock(self.fh, fcntl.LOCK_EX)
        return self

    def __exit__(self, *a):
        fcntl.flock(self.fh, fcntl.LOCK_UN)
        self.fh.close()


def facts_dir(repo):
    return os.path.join(CACHE, "facts", tree_hash(repo))


def ensure_tools():
    if not os.path.exists(ASTFACTS) or not os.path.exists(MIRFACTS):
        raise BuildError("tools not built: run MANIFEST.setup_cmd (bin/setup) first")


def nightly_sysroot():
    return subprocess.check_output(["rustc", "+nightly", "--print", "sysroot"], text=True).strip()


def get_ast(repo):
    """AST facts for all source files of the five crates; returns parsed JSON."""
    ensure_tools()
    d = facts_dir(repo)
    out = os.path.join(d, "ast-%s.json" % tool_hash("astfacts"))
    if not os.path.exists(out):
        with Lock():
            if not os.path.exists(out):
                os.makedirs(d, exist_ok=True)
                tmp = out + ".tmp%d" % os.getpid()
                r = subprocess.run([ASTFACTS, tmp, repo] + source_files(repo), capture_output=True, text=True)
                if r.returncode != 0:
                    msg = r.stderr
                    try:
                        msg += json.dumps(json.load(open(tmp))["errors"])
                    except Exception:
                        pass
                    raise BuildError("astfacts failed (source does not parse):\n" + msg)
                os.rename(tmp, out)
    with open(out) as fh:
        return json.load(fh)


def get_mir(repo, cfg="main"):
    """MIR facts for configuration `cfg`; returns list of per-crate fact dicts."""
    ensure_tools()
    d = os.path.join(facts_dir(repo), "mir-%s-%s" % (cfg, tool_hash("mirfacts")))
    done = os.path.join(d, "DONE")
    try:
        os.utime(facts_dir(repo))
    except OSError:
        pass
    if not os.path.exists(done):
        with Lock():
            if not os.path.exists(done):
                build_mir(repo, cfg, d)
    facts = []
    for f in sorted(glob.glob(os.path.join(d, "*.json"))):
        with open(f) as fh:
            facts.append(json.load(fh))
    args, expected = CONFIGS[cfg]
    seen = {f["crate"] for f in facts}
    for c in expected:
        if c not in seen:
            raise BuildError("no MIR facts produced for crate %s (cfg %s)" % (c, cfg))
    return facts


def build_mir(repo, cfg, d):
    args, expected = CONFIGS[cfg]
    if os.path.exists(d):
        shutil.rmtree(d)
    os.makedirs(d, exist_ok=True)
    target = os.path.join(CACHE, "target-mir")
    # force cargo to re-run the wrapper for the workspace members
    for fp in glob.glob(os.path.join(target, "debug/.fingerprint/leptos_i18n*")):
        shutil.rmtree(fp, ignore_errors=True)
    env = dict(os.environ)
    env["LD_LIBRARY_PATH"] = nightly_sysroot() + "/lib" + (":" + env["LD_LIBRARY_PATH"] if env.get("LD_LIBRARY_PATH") else "")
    env["RUSTFLAGS"] = "--cap-lints=allow -Zmir-opt-level=0"
    env["RUSTC_WORKSPACE_WRAPPER"] = MIRFACTS
    env["MIRFACTS_OUT"] = d
    env["MIRFACTS_CRATES"] = ",".join(CRATES)
    env["CARGO_TARGET_DIR"] = target
    env["CARGO_NET_OFFLINE"] = "true"
    env.pop("RUSTC_WRAPPER", None)
    t0 = time.time()
    r = subprocess.run(["cargo", "+nightly", "check", "--offline", "--quiet"] + args, cwd=repo, env=env,
                       capture_output=True, text=True)
    if r.returncode != 0:
        raise BuildError("cargo check (cfg %s) failed — the tree does not compile under the driver:\n%s" %
                         (cfg, r.stderr[-6000:]))
    with open(os.path.join(d, "DONE"), "w") as fh:
        fh.write("%.1f\n" % (time.time() - t0))


def prune_cache(keep=8, min_age_s=1200):
    """keep the most recently used fact directories; never remove one used within the last 20 minutes (another check may
    be reading it)"""
    base = os.path.join(CACHE, "facts")
    if not os.path.isdir(base):
        return
    now = time.time()
    ds = sorted((os.path.getmtime(os.path.join(base, x)), x) for x in os.listdir(base))
    for mt, x in ds[:-keep]:
        if now - mt < min_age_s:
            continue
        shutil.rmtree(os.path.join(base, x), ignore_errors=True)
