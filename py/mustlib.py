"""Must-pass-through / guard helpers over MIR bodies (F-MUST, F-WHO, F-DIAG)."""
import re
from collections import defaultdict, deque

from mirlib import callee_name, callee_of, op_const, op_place, place_str


def call_blocks(body, regex, pred=None):
    """blocks whose terminator is a call to a callee matching regex (resolved, declared or full name)"""
    rx = re.compile(regex)
    out = []
    for i, t in body.calls():
        c = op_const(t["func"])
        if not c or "fn" not in c:
            continue
        names = [c.get("resolved"), c["fn"], c.get("fn_full")]
        if any(n and rx.search(n) for n in names):
            if pred is None or pred(t):
                out.append(i)
    return out


def agg_blocks(body, adt_suffix, variant=None):
    return sorted({i for i, j, s in body.aggregates(adt_suffix, variant)})


def ok_return_blocks(body):
    """blocks that build `Result::Ok(..)` into the return place (directly or through one move)"""
    out = set()
    moved_to_ret = set()
    for i, j, s in body.assigns():
        if s["place"]["l"] == 0 and not s["place"]["p"] and s["rv"]["k"] == "Use":
            p = op_place(s["rv"]["ops"][0])
            if p:
                moved_to_ret.add(p["l"])
    for i, j, s in body.aggregates("std::result::Result", "Ok"):
        l = s["place"]["l"]
        if l == 0 or l in moved_to_ret:
            out.add(i)
    return sorted(out)


def err_return_blocks(body):
    out = set()
    for i, j, s in body.aggregates("std::result::Result", "Err"):
        out.add(i)
    for i, t in body.calls():
        n = callee_name(t) or ""
        if "FromResidual" in n and t["dest"]["l"] == 0:
            out.add(i)
    return sorted(out)


def reaches(body, a, targets, avoid=()):
    return body.paths_avoiding(a, targets, avoid) if a not in targets else True


def must_pass(body, through, targets, start=0):
    """every path start -> any target passes a block of `through`"""
    through = set(through)
    targets = [t for t in targets if t not in through]
    if not targets:
        return True
    return not body.paths_avoiding(start, targets, through)


def copies_of(body, local):
    """locals that are plain copies/moves (or Not) of `local`, with the parity of Not operations"""
    out = {local: 0}
    changed = True
    while changed:
        changed = False
        for i, j, s in body.assigns():
            if s["place"]["p"]:
                continue
            rv = s["rv"]
            dst = s["place"]["l"]
            if dst in out:
                continue
            if rv["k"] == "Use":
                p = op_place(rv["ops"][0])
                if p and not p["p"] and p["l"] in out:
                    out[dst] = out[p["l"]]
                    changed = True
            elif rv["k"] == "UnaryOp" and rv["op"] == "Not":
                p = op_place(rv["ops"][0])
                if p and not p["p"] and p["l"] in out:
                    out[dst] = 1 - out[p["l"]]
                    changed = True
    return out


def result_switch(body, call_block):
    """for a bool-returning call: (switch block, target when result is true, target when false) or None"""
    t = body.blocks[call_block]["term"]
    dest = t["dest"]["l"]
    cp = copies_of(body, dest)
    for i, sw in body.terms("SwitchInt"):
        p = op_place(sw["discr"])
        if p and not p["p"] and p["l"] in cp:
            parity = cp[p["l"]]
            zero = None
            for v, b in sw["targets"]:
                if v == "0":
                    zero = b
            other = sw["otherwise"]
            if zero is None:
                continue
            # discr == 0 means (possibly negated) value false
            if parity == 0:
                return i, other, zero
            return i, zero, other
    return None


def discr_switches(body, local_pred):
    """SwitchInt blocks whose discriminant is `discriminant(place)` with place.local satisfying local_pred"""
    out = []
    for i, sw in body.terms("SwitchInt"):
        p = op_place(sw["discr"])
        if not p or p["p"]:
            continue
        for (bi, j, s) in body.defs().get(p["l"], []):
            if j == "term":
                continue
            rv = s["rv"]
            if rv["k"] == "Discriminant" and local_pred(rv["place"]):
                out.append((i, sw, rv["place"]))
    return out


def exclusive_reach(body, frm, target, other_side):
    """target reachable from `frm` without passing through `other_side`"""
    return body.paths_avoiding(frm, [target], [other_side]) if frm != target else True


def straight_reach(body, frm, target):
    """target reachable from frm through blocks that do not branch (no SwitchInt on the way)"""
    seen = {frm}
    dq = deque([frm])
    while dq:
        i = dq.popleft()
        if i == target:
            return True
        if body.blocks[i]["term"]["k"] == "SwitchInt":
            continue
        for s in body.succ(i):
            if s not in seen:
                seen.add(s)
                dq.append(s)
    return False


def nearest_common_dominator(body, a, b):
    dom = body.dominators()
    if a not in dom or b not in dom:
        return None
    common = dom[a] & dom[b]
    return max(common, key=lambda n: len(dom[n])) if common else None


def alternatives(body, err_block, ok_block):
    """err_block and ok_block are the two outcomes of one decision: their nearest common dominator is a branch,
    and the error block cannot continue to the ok block"""
    n = nearest_common_dominator(body, err_block, ok_block)
    if n is None or n in (err_block,):
        return False
    if body.blocks[n]["term"]["k"] != "SwitchInt":
        return False
    return not body.paths_avoiding(err_block, [ok_block], [])


def loop_of(body, block):
    """(header, set(body blocks)) of the innermost natural loop containing block, or None"""
    best = None
    preds = body.preds()
    for (src, hdr) in body.back_edges():
        nodes = {hdr, src}
        dq = deque([src])
        while dq:
            n = dq.popleft()
            if n == hdr:
                continue
            for p in preds[n]:
                if p not in nodes:
                    nodes.add(p)
                    dq.append(p)
        if block in nodes and (best is None or len(nodes) < len(best[1])):
            best = (hdr, nodes)
    return best


def loops(body):
    """natural loops: list of (header, nodes, [back-edge sources])"""
    preds = body.preds()
    by_hdr = {}
    for (src, hdr) in body.back_edges():
        nodes = by_hdr.setdefault(hdr, ({hdr}, []))
        nodes[1].append(src)
        s = nodes[0]
        s.add(src)
        dq = deque([src])
        while dq:
            n = dq.popleft()
            if n == hdr:
                continue
            for p in preds[n]:
                if p not in s:
                    s.add(p)
                    dq.append(p)
    return [(h, v[0], v[1]) for h, v in sorted(by_hdr.items())]


def field_name(prog, adt_path, idx, variant=0):
    adt = prog.adts.get(adt_path)
    if not adt:
        return None
    try:
        return adt["variants"][variant]["fields"][idx]["name"]
    except Exception:
        return None


def derives_from_field(body, prog, local, adt_suffix, field, depth=8):
    """does `local` (a reference/deref chain) derive from `<something of type adt>.field`?"""
    seen = set()
    dq = deque([(local, 0)])
    while dq:
        l, d = dq.popleft()
        if l in seen or d > depth:
            continue
        seen.add(l)
        for (bi, j, s) in body.defs().get(l, []):
            if j == "term":
                for a in s["args"]:
                    p = op_place(a)
                    if p:
                        if _place_is_field(body, prog, p, adt_suffix, field):
                            return True
                        dq.append((p["l"], d + 1))
                continue
            rv = s["rv"]
            places = []
            if "place" in rv:
                places.append(rv["place"])
            for op in rv.get("ops", []):
                p = op_place(op)
                if p:
                    places.append(p)
            for p in places:
                if _place_is_field(body, prog, p, adt_suffix, field):
                    return True
                dq.append((p["l"], d + 1))
    return False


def _place_is_field(body, prog, p, adt_suffix, field):
    ty = body.local_ty(p["l"])
    base = re.sub(r"^&(mut )?", "", ty)
    base = re.sub(r"<.*$", "", base)
    if not base.endswith(adt_suffix):
        return False
    for e in p["p"]:
        if e.startswith("."):
            n = field_name(prog, base, int(e[1:]))
            return n == field
    return False


def const_switch_targets(body):
    """block -> the only feasible successor, for SwitchInt terminators whose discriminant is a local assigned a
    boolean constant exactly once (cfg!(..) after const folding)"""
    out = {}
    defs = body.defs()
    for i, sw in body.terms("SwitchInt"):
        p = op_place(sw["discr"])
        if not p or p["p"]:
            continue
        ds = defs.get(p["l"], [])
        if len(ds) != 1 or ds[0][1] == "term":
            continue
        rv = ds[0][2]["rv"]
        if rv["k"] != "Use":
            continue
        c = op_const(rv["ops"][0])
        if not c or "bool" not in c:
            continue
        val = "1" if c["bool"] else "0"
        tgt = None
        for v, b in sw["targets"]:
            if v == val:
                tgt = b
        out[i] = tgt if tgt is not None else sw["otherwise"]
    return out


def feasible_paths_avoiding(body, start, goals, avoid):
    """like Body.paths_avoiding but constant (cfg!) switches only follow their feasible edge"""
    cst = const_switch_targets(body)
    goals = set(goals)
    avoid = set(avoid)
    if start in avoid:
        return False
    seen = {start}
    dq = deque([start])
    while dq:
        i = dq.popleft()
        if i in goals:
            return True
        succ = [cst[i]] if i in cst else body.succ(i)
        for s2 in succ:
            if s2 not in seen and s2 not in avoid:
                seen.add(s2)
                dq.append(s2)
    return False


def feasible_reachable(body):
    cst = const_switch_targets(body)
    seen = {0}
    dq = deque([0])
    while dq:
        i = dq.popleft()
        succ = [cst[i]] if i in cst else body.succ(i)
        for s2 in succ:
            if s2 not in seen:
                seen.add(s2)
                dq.append(s2)
    return seen


def resolve_matches(body, target):
    """`matches!(x, P)` lowers to: switch on discr -> arm blocks assigning a bool constant to a temp and jumping
    to a join block that switches on the temp. Given an arm block, return the block control reaches after the join
    switch (or the arm block itself when the pattern is not present)."""
    blk = body.blocks[target]
    t = blk["term"]
    if t["k"] != "Goto":
        return target
    assigns = [s for s in blk["stmts"] if s["k"] == "Assign"]
    if len(assigns) != 1 or assigns[0]["place"]["p"] or assigns[0]["rv"]["k"] != "Use":
        return target
    c = op_const(assigns[0]["rv"]["ops"][0])
    if not c or "bool" not in c:
        return target
    l = assigns[0]["place"]["l"]
    join = t["target"]
    jt = body.blocks[join]["term"]
    if jt["k"] != "SwitchInt" or body.blocks[join]["stmts"]:
        return target
    p = op_place(jt["discr"])
    if not p or p["l"] != l:
        return target
    val = "1" if c["bool"] else "0"
    for v, b in jt["targets"]:
        if v == val:
            return b
    return jt["otherwise"]


def _root(name):
    return re.sub(r"::\{closure#\d+\}", "", name)


def owner_of(prog, name, hops=3):
    """the function a body belongs to for who-may-do rules: closures belong to their function, and a private function
    with a single caller (an extracted helper) belongs to that caller"""
    if not hasattr(prog, "_callers"):
        cs = defaultdict(set)
        for n, tgts in prog.edges().items():
            for t in tgts:
                if t in prog.bodies and _root(t) != _root(n):
                    cs[_root(t)].add(_root(n))
        prog._callers = cs
    cur = _root(name)
    while hops > 0:
        b = prog.bodies.get(cur)
        if b is None or b.is_pub or b.impl_trait or len(prog._callers.get(cur, ())) != 1:
            break
        cur = next(iter(prog._callers[cur]))
        hops -= 1
    return cur
