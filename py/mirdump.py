"""Human-readable dump of a MIR body (developer aid)."""
import sys, os
sys.path.insert(0, os.path.dirname(os.path.abspath(__file__)))
from mirlib import *


def opstr(op):
    if op is None:
        return "?"
    p = op_place(op)
    if p:
        return ("move " if "move" in op else "") + place_str(p)
    c = op_const(op)
    if c:
        for k in ("str", "int", "bool", "char"):
            if k in c:
                return "const %r" % (c[k],)
        if "fn" in c:
            return "fn " + (c.get("fn_full") or c["fn"])
        return "const<%s>" % c["ty"][:40]
    return "?"


def rvstr(rv):
    k = rv["k"]
    if k == "Use":
        return opstr(rv["ops"][0])
    if k == "Ref":
        return "&" + ("mut " if rv["mut"] else "") + place_str(rv["place"])
    if k == "Discriminant":
        return "discr(" + place_str(rv["place"]) + ")"
    if k == "Aggregate":
        what = rv.get("agg")
        if what == "Adt":
            what = rv["adt"].split("::")[-1] + "::" + rv["variant"]
        elif what == "Closure":
            what = "closure " + rv["def"].split("::")[-1]
        return "%s(%s)" % (what, ", ".join(opstr(o) for o in rv["ops"]))
    if k in ("BinaryOp", "UnaryOp"):
        return "%s(%s)" % (rv["op"], ", ".join(opstr(o) for o in rv["ops"]))
    if k == "Cast":
        return "%s as %s [%s]" % (opstr(rv["ops"][0]), rv["ty"][:30], rv["cast"][:20])
    return k + str({x: y for x, y in rv.items() if x != "k"})[:80]


def dump(body, cleanup=False):
    print("fn", body.name, "args=%d" % body.arg_count)
    for i, l in enumerate(body.locals):
        if l.get("name"):
            print("   _%d: %s  // %s" % (i, l["ty"][:70], l["name"]))
    for i, b in enumerate(body.blocks):
        if b["cleanup"] and not cleanup:
            continue
        print(" bb%d:" % i)
        for s in b["stmts"]:
            if s["k"] == "Assign":
                print("    %s = %s   // L%d" % (place_str(s["place"]), rvstr(s["rv"]), s["line"]))
        t = b["term"]
        k = t["k"]
        if k == "Call":
            print("    %s = CALL %s(%s) -> bb%s   // L%d" % (place_str(t["dest"]), callee_name(t) or opstr(t["func"]), ", ".join(opstr(a) for a in t["args"]), t["target"], t["line"]))
        elif k == "SwitchInt":
            print("    SWITCH %s %s else bb%d   // L%d" % (opstr(t["discr"]), ["%s->bb%d" % (v, b2) for v, b2 in t["targets"]], t["otherwise"], t["line"]))
        elif k == "Assert":
            print("    ASSERT %s -> bb%d" % (t["assert"], t["target"]))
        elif k in ("Goto", "Drop"):
            print("    %s -> bb%d" % (k, t["target"]))
        else:
            print("    " + k)


if __name__ == "__main__":
    import facts
    P = Program(facts.get_mir(sys.argv[3] if len(sys.argv) > 3 else "/repo", sys.argv[2] if len(sys.argv) > 2 else "main"))
    for b in P.bodies_matching(sys.argv[1]):
        dump(b)
